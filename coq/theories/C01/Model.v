(* C01 model: wire codec of aioslsk.
   - little-endian integers, UTF-8 / cp1252 string decoding (protocol/primitives.py)
   - type-level codec enc/dec for every wire type incl. nested arrays of records
   - field layer = ProtocolDataclass.serialize_into / deserialize with their two metadata
     procedures (_get_value_for_field, _field_needs_deserialization)
   - message layer = MessageDataclass.serialize_into / deserialize, dispatch by message id
   - obfuscation.encode / decode as the two loops, on top of the GENERATED rotr32
     (SlskGen.ObfGen, from protocol/obfuscation.py)
   Definitions only; everything is executable (vm_compute) for the correspondence check. *)
From Coq Require Import ZArith List Bool.
From Slsk Require Import C01.Types.
From SlskGen Require Import ObfGen.
Import ListNotations.
Open Scope N_scope.

(* ------------------------------------------------------------------------------------ *)
(* bytes, little endian                                                                  *)

Definition len {A} (l : list A) : N := N.of_nat (length l).

Fixpoint le (w : nat) (v : N) : bytes :=
  match w with
  | O => []
  | S w' => v mod 256 :: le w' (v / 256)
  end.

Fixpoint leval (bs : bytes) : N :=
  match bs with
  | [] => 0
  | b :: r => b + 256 * leval r
  end.

Definition pow256 (w : nat) : N := 256 ^ N.of_nat w.

(* struct.unpack_from(data, offset): needs w bytes, else struct.error *)
Definition take (w : nat) (bs : bytes) : option (bytes * bytes) :=
  if Nat.leb w (length bs) then Some (firstn w bs, skipn w bs) else None.

Definition dec_uint (w : nat) (bs : bytes) : option (N * bytes) :=
  match take w bs with
  | Some (h, r) => Some (leval h, r)
  | None => None
  end.

(* struct.pack('<I'...) : struct.error outside the range of the format *)
Definition enc_int (w : nat) (signed : bool) (z : Z) : option bytes :=
  let m := Z.of_N (pow256 w) in
  if signed
  then if andb (Z.leb (- (m / 2)) z) (Z.ltb z (m / 2)) then Some (le w (Z.to_N (z mod m))) else None
  else if andb (Z.leb 0 z) (Z.ltb z m) then Some (le w (Z.to_N z)) else None.

Definition dec_int (w : nat) (signed : bool) (bs : bytes) : option (Z * bytes) :=
  match dec_uint w bs with
  | Some (n, r) =>
      let m := pow256 w in
      Some (if andb signed (m / 2 <=? n) then (Z.of_N n - Z.of_N m)%Z else Z.of_N n, r)
  | None => None
  end.

(* ------------------------------------------------------------------------------------ *)
(* strings: bytes.decode('utf-8') with fallback bytes.decode('cp1252')                   *)

Definition cont (b : N) : bool := andb (0x80 <=? b) (b <=? 0xBF).
Definition between (lo hi b : N) : bool := andb (lo <=? b) (b <=? hi).

(* CPython's strict UTF-8 decoder: no overlong forms, no surrogates, at most U+10FFFF *)
Fixpoint utf8_valid (bs : bytes) : bool :=
  match bs with
  | [] => true
  | b0 :: r =>
      if b0 <? 0x80 then utf8_valid r
      else if between 0xC2 0xDF b0 then
        match r with b1 :: r1 => andb (cont b1) (utf8_valid r1) | _ => false end
      else if between 0xE0 0xEF b0 then
        match r with
        | b1 :: b2 :: r2 =>
            andb (andb (if b0 =? 0xE0 then between 0xA0 0xBF b1
                        else if b0 =? 0xED then between 0x80 0x9F b1 else cont b1)
                       (cont b2)) (utf8_valid r2)
        | _ => false
        end
      else if between 0xF0 0xF4 b0 then
        match r with
        | b1 :: b2 :: b3 :: r3 =>
            andb (andb (andb (if b0 =? 0xF0 then between 0x90 0xBF b1
                              else if b0 =? 0xF4 then between 0x80 0x8F b1 else cont b1)
                             (cont b2)) (cont b3)) (utf8_valid r3)
        | _ => false
        end
      else false
  end.

(* code points of bytes 0x80..0x9F in cp1252; 0 = undefined (0x81 0x8D 0x8F 0x90 0x9D) *)
Definition cp1252_high : list N :=
  [8364; 0; 8218; 402; 8222; 8230; 8224; 8225; 710; 8240; 352; 8249; 338; 0; 381; 0;
   0; 8216; 8217; 8220; 8221; 8226; 8211; 8212; 732; 8482; 353; 8250; 339; 0; 382; 376].

Definition cp1252_cp (b : N) : option N :=
  if b <? 0x80 then Some b
  else if b <? 0xA0 then
    match nth (N.to_nat (b - 0x80)) cp1252_high 0 with 0 => None | c => Some c end
  else Some b.

(* UTF-8 encoding of a code point below 0x10000 that is not a surrogate *)
Definition utf8_enc_cp (c : N) : bytes :=
  if c <? 0x80 then [c]
  else if c <? 0x800 then [0xC0 + c / 64; 0x80 + c mod 64]
  else [0xE0 + c / 4096; 0x80 + (c / 64) mod 64; 0x80 + c mod 64].

Fixpoint cp1252_to_utf8 (bs : bytes) : option bytes :=
  match bs with
  | [] => Some []
  | b :: r =>
      match cp1252_cp b, cp1252_to_utf8 r with
      | Some c, Some o => Some (utf8_enc_cp c ++ o)
      | _, _ => None
      end
  end.

(* primitives.decode_string semantics; the value is the UTF-8 form of the resulting str *)
Definition decode_string (bs : bytes) : option bytes :=
  if utf8_valid bs then Some bs else cp1252_to_utf8 bs.

(* ------------------------------------------------------------------------------------ *)
(* type-level codec                                                                      *)

Definition u32max : N := 4294967296.

Fixpoint opt_concat (l : list (option bytes)) : option bytes :=
  match l with
  | [] => Some []
  | Some b :: r => match opt_concat r with Some o => Some (b ++ o) | None => None end
  | None :: _ => None
  end.

(* X(value).serialize_into(buffer); None = an exception (struct.error, wrong Python type...) *)
Fixpoint enc (t : ty) (v : value) {struct t} : option bytes :=
  match t, v with
  | TInt w s, VInt z => enc_int w s z
  | TBool, VBool b => Some [if b then 1 else 0]
  | TStr, VStr s => if len s <? u32max then Some (le 4 (len s) ++ s) else None
  | TBytes, VBytes s => if len s <? u32max then Some (le 4 (len s) ++ s) else None
  | TIp, VIp o => if Nat.eqb (length o) 4 then Some (rev o) else None
  | TTicket, VInt z => enc_int 4 false z
  | TArr e, VArr vs =>
      if len vs <? u32max then
        match opt_concat (map (enc e) vs) with
        | Some b => Some (le 4 (len vs) ++ b)
        | None => None
        end
      else None
  | TRec fs, VRec vs =>
      (fix go (fs : list ty) (vs : list value) {struct fs} : option bytes :=
         match fs, vs with
         | [], [] => Some []
         | f :: fs', x :: vs' =>
             match enc f x, go fs' vs' with
             | Some b, Some o => Some (b ++ o)
             | _, _ => None
             end
         | _, _ => None
         end) fs vs
  | _, _ => None
  end.

(* the `for _ in range(array_len)` loop of array.deserialize; [d] decodes one element.
   fuel: an element always consumes at least one byte, so more iterations than bytes remain
   cannot all succeed (C02_total_and_linear). *)
Fixpoint dec_arr (d : bytes -> option (value * bytes)) (fuel : nat) (cnt : N) (bs : bytes)
  : option (list value * bytes) :=
  if cnt =? 0 then Some ([], bs)
  else match fuel with
       | O => None
       | S f =>
           match d bs with
           | None => None
           | Some (v, r) =>
               match dec_arr d f (cnt - 1) r with
               | Some (vs, r') => Some (v :: vs, r')
               | None => None
               end
           end
       end.

(* X.deserialize(pos, data) on data[pos:]; None = an exception *)
Fixpoint dec (t : ty) (bs : bytes) {struct t} : option (value * bytes) :=
  match t with
  | TInt w s => match dec_int w s bs with Some (z, r) => Some (VInt z, r) | None => None end
  | TBool => match dec_uint 1 bs with Some (n, r) => Some (VBool (negb (n =? 0)), r) | None => None end
  | TStr =>
      match dec_uint 4 bs with
      | Some (n, r) =>
          (* data[pos:end] shorter than announced: Exception *)
          if n <=? len r then
            match decode_string (firstn (N.to_nat n) r) with
            | Some s => Some (VStr s, skipn (N.to_nat n) r)
            | None => None
            end
          else None
      | None => None
      end
  | TBytes =>
      (* bytearr.deserialize does not check the length it read (truncates silently) *)
      match dec_uint 4 bs with
      | Some (n, r) =>
          if n <=? len r then Some (VBytes (firstn (N.to_nat n) r), skipn (N.to_nat n) r)
          else Some (VBytes r, [])
      | None => None
      end
  | TIp => match take 4 bs with Some (h, r) => Some (VIp (rev h), r) | None => None end
  | TTicket =>
      if Nat.eqb (length bs) 4
      then match dec_int 4 false bs with Some (z, r) => Some (VInt z, r) | None => None end
      else match dec_int 8 false bs with Some (z, r) => Some (VInt z, r) | None => None end
  | TArr e =>
      match dec_uint 4 bs with
      | Some (n, r) =>
          match dec_arr (dec e) (length r) n r with
          | Some (vs, r') => Some (VArr vs, r')
          | None => None
          end
      | None => None
      end
  | TRec fs =>
      match (fix go (fs : list ty) (bs : bytes) {struct fs} : option (list value * bytes) :=
               match fs with
               | [] => Some ([], bs)
               | f :: fs' =>
                   match dec f bs with
                   | Some (v, r) =>
                       match go fs' r with
                       | Some (vs, r') => Some (v :: vs, r')
                       | None => None
                       end
                   | None => None
                   end
               end) fs bs with
      | Some (vs, r) => Some (VRec vs, r)
      | None => None
      end
  end.

(* smallest number of bytes an encoding of the type occupies *)
Fixpoint min_size (t : ty) : nat :=
  match t with
  | TInt w _ => w
  | TBool => 1
  | TStr | TBytes | TIp | TTicket | TArr _ => 4
  | TRec fs => (fix go (fs : list ty) : nat := match fs with [] => O | f :: r => (min_size f + go r)%nat end) fs
  end.

(* well-formed type: integer widths 1..8, array elements occupy at least one byte,
   no _PeerInitTicket nested anywhere *)
Fixpoint wf_ty (t : ty) : bool :=
  match t with
  | TInt w _ => andb (Nat.leb 1 w) (Nat.leb w 8)
  | TTicket => false
  | TArr e => andb (wf_ty e) (Nat.leb 1 (min_size e))
  | TRec fs => (fix go (fs : list ty) : bool := match fs with [] => true | f :: r => andb (wf_ty f) (go r) end) fs
  | _ => true
  end.

(* in-domain values of a type (the `canonical` predicate at type level) *)
Fixpoint val_ok (t : ty) (v : value) {struct t} : bool :=
  match t, v with
  | TInt w s, VInt z =>
      let m := Z.of_N (pow256 w) in
      if s then andb (Z.leb (- (m / 2)) z) (Z.ltb z (m / 2)) else andb (Z.leb 0 z) (Z.ltb z m)
  | TBool, VBool _ => true
  | TStr, VStr s => andb (andb (bytes_okb s) (utf8_valid s)) (len s <? u32max)
  | TBytes, VBytes s => andb (bytes_okb s) (len s <? u32max)
  | TIp, VIp o => andb (bytes_okb o) (Nat.eqb (length o) 4)
  | TTicket, VInt z => andb (Z.leb 0 z) (Z.ltb z (Z.of_N u32max))
  | TArr e, VArr vs => andb (forallb (val_ok e) vs) (len vs <? u32max)
  | TRec fs, VRec vs =>
      (fix go (fs : list ty) (vs : list value) {struct fs} : bool :=
         match fs, vs with
         | [], [] => true
         | f :: fs', x :: vs' => andb (val_ok f x) (go fs' vs')
         | _, _ => false
         end) fs vs
  | _, _ => false
  end.

(* ------------------------------------------------------------------------------------ *)
(* field layer                                                                           *)

(* bool(value) of Python *)
Definition truthy (v : value) : bool :=
  match v with
  | VInt z => negb (Z.eqb z 0)
  | VBool b => b
  | VStr s | VBytes s => negb (Nat.eqb (length s) 0)
  | VIp _ => true
  | VArr vs => negb (Nat.eqb (length vs) 0)
  | VRec _ => true
  | VNone => false
  end.

Definition is_none (v : value) : bool := match v with VNone => true | _ => false end.

(* _get_value_for_field + `if value is None: continue`: is the field packed?
   [all] = the attribute values of the whole object (getattr(obj, name)) *)
Definition cond_holds (f : field) (all : list value) : bool :=
  match fcond f with
  | None => true
  | Some (i, pol) => Bool.eqb (truthy (nth i all VNone)) pol
  end.

Definition sent (f : field) (all : list value) (v : value) : bool :=
  andb (negb (is_none v)) (cond_holds f all).

(* ProtocolDataclass.serialize_into *)
Fixpoint enc_fields (fs : list field) (all : list value) (vs : list value) : option bytes :=
  match fs, vs with
  | [], [] => Some []
  | f :: fs', v :: vs' =>
      if sent f all v then
        match enc (fty f) v, enc_fields fs' all vs' with
        | Some b, Some o => Some (b ++ o)
        | _, _ => None
        end
      else enc_fields fs' all vs'
  | _, _ => None
  end.

(* _field_needs_deserialization; [acc] = field_map so far (None = key absent);
   result None = KeyError (condition on a field that was not deserialised) *)
Definition needs (f : field) (acc : list (option value)) (bs : bytes) : option bool :=
  let opt_check := if fopt f then negb (Nat.eqb (length bs) 0) else true in
  match fcond f with
  | None => Some opt_check
  | Some (i, pol) =>
      match nth_error acc i with
      | Some (Some v) => if Bool.eqb (truthy v) pol then Some opt_check else Some false
      | _ => None
      end
  end.

(* the field loop of ProtocolDataclass.deserialize *)
Fixpoint dec_fields (fs : list field) (acc : list (option value)) (bs : bytes)
  : option (list (option value) * bytes) :=
  match fs with
  | [] => Some ([], bs)
  | f :: fs' =>
      match needs f acc bs with
      | None => None
      | Some false =>
          match dec_fields fs' (acc ++ [None]) bs with
          | Some (o, r) => Some (None :: o, r)
          | None => None
          end
      | Some true =>
          match dec (fty f) bs with
          | None => None
          | Some (v, r) =>
              match dec_fields fs' (acc ++ [Some v]) r with
              | Some (o, r') => Some (Some v :: o, r')
              | None => None
              end
          end
      end
  end.

(* cls(field_map as keywords): absent keys take the dataclass default; TypeError when there is none *)
Fixpoint construct (fs : list field) (o : list (option value)) : option (list value) :=
  match fs, o with
  | [], [] => Some []
  | f :: fs', x :: o' =>
      match (match x with Some v => Some v | None => fdefault f end), construct fs' o' with
      | Some v, Some vs => Some (v :: vs)
      | _, _ => None
      end
  | _, _ => None
  end.

Definition dec_obj (fs : list field) (bs : bytes) : option (list value * bytes) :=
  match dec_fields fs [] bs with
  | Some (o, r) => match construct fs o with Some vs => Some (vs, r) | None => None end
  | None => None
  end.

(* ------------------------------------------------------------------------------------ *)
(* message layer (zlib as a pair of functions: Section variables in the proofs, finite
   oracle tables in the correspondence check)                                             *)

Section Msg.
  Variable zc : bytes -> bytes.            (* zlib.compress *)
  Variable zd : bytes -> option bytes.     (* zlib.decompress; None = zlib.error *)

  (* MessageDataclass.serialize_into *)
  Definition enc_msg (s : schema) (m : list value) : option bytes :=
    match enc_fields (sfields s) m m with
    | Some body =>
        let body' := if compressed s then zc body else body in
        let idb := le (id_width s) (msg_id s) in
        if len idb + len body' <? u32max
        then Some (le 4 (len idb + len body') ++ idb ++ body')
        else None
    | None => None
    end.

  (* MessageDataclass.deserialize(0, message): the length prefix is read and ignored,
     the id must match, trailing bytes only cause a log line *)
  Definition dec_msg (s : schema) (bs : bytes) : option (list value) :=
    match dec_uint 4 bs with
    | Some (_, r) =>
        match dec_uint (id_width s) r with
        | Some (i, r') =>
            if i =? msg_id s then
              if compressed s then
                match zd r' with
                | Some body => match dec_obj (sfields s) body with Some (vs, _) => Some vs | None => None end
                | None => None
                end
              else match dec_obj (sfields s) r' with Some (vs, _) => Some vs | None => None end
            else None
        | None => None
        end
    | None => None
    end.

  (* XMessage.deserialize_request/response: id of the family's width at offset 4, first class
     in definition order with that MESSAGE_ID, then that class's own deserialize *)
  Definition dispatch (tbl : list schema) (fam_width : nat) (bs : bytes) : option (schema * list value) :=
    match dec_uint fam_width (skipn 4 bs) with
    | Some (i, _) =>
        match find (fun s => msg_id s =? i) tbl with
        | Some s => match dec_msg s bs with Some m => Some (s, m) | None => None end
        | None => None
        end
    | None => None
    end.
End Msg.

Definition family_eqb (a b : family) : bool :=
  match a, b with
  | FServer, FServer | FPeerInit, FPeerInit | FPeer, FPeer | FDistributed, FDistributed => true
  | _, _ => false
  end.
Definition dir_eqb (a b : direction) : bool :=
  match a, b with DRequest, DRequest | DResponse, DResponse => true | _, _ => false end.

Definition table (all : list schema) (f : family) (d : direction) : list schema :=
  filter (fun s => andb (family_eqb f (sfamily s)) (dir_eqb d (sdir s))) all.

(* ------------------------------------------------------------------------------------ *)
(* schema well-formedness and the in-domain predicate                                    *)

Definition is_ticket (t : ty) : bool := match t with TTicket => true | _ => false end.

(* field i of fs (fields before it: [pre]) *)
Definition wf_field (pre : list field) (f : field) (last : bool) : bool :=
  andb (andb
    (* type: well formed and non-empty; _PeerInitTicket only as the unconditional last field *)
    (if is_ticket (fty f)
     then andb last (andb (negb (fopt f)) (match fcond f with None => true | _ => false end))
     else andb (wf_ty (fty f)) (Nat.leb 1 (min_size (fty f))))
    (* condition: refers to an earlier, unconditional, mandatory boolean field *)
    (match fcond f with
     | None => true
     | Some (i, _) =>
         match nth_error pre i with
         | Some g => andb (match fty g with TBool => true | _ => false end)
                          (andb (negb (fopt g)) (match fcond g with None => true | _ => false end))
         | None => false
         end
     end))
    (* a field that can be skipped has a default *)
    (if orb (fopt f) (match fcond f with None => false | _ => true end)
     then match fdefault f with Some _ => true | None => false end else true).

Fixpoint wf_fields (pre : list field) (fs : list field) : bool :=
  match fs with
  | [] => true
  | f :: r => andb (wf_field pre f (match r with [] => true | _ => false end)) (wf_fields (pre ++ [f]) r)
  end.

(* after the first 'optional' field every field is optional *)
Fixpoint opt_suffix (fs : list field) : bool :=
  match fs with
  | [] => true
  | f :: r => if fopt f then forallb fopt r else opt_suffix r
  end.

Definition wf_schema (s : schema) : bool :=
  andb (andb (wf_fields [] (sfields s)) (opt_suffix (sfields s)))
       (andb (orb (Nat.eqb (id_width s) 1) (Nat.eqb (id_width s) 4)) (msg_id s <? pow256 (id_width s))).

(* message ids unique in a dispatch table *)
Fixpoint nodup_ids (tbl : list schema) : bool :=
  match tbl with
  | [] => true
  | s :: r => andb (negb (existsb (fun s' => msg_id s' =? msg_id s) r)) (nodup_ids r)
  end.

(* [canonical_from fs all vs]: vs are in-domain values for the fields fs of an object whose
   complete attribute list is [all]:
   - a field that is not sent (condition false, or optional and None) holds its default;
   - once an enabled optional field is None, no later field is sent;
   - a sent field holds an in-domain value of its wire type. *)
Definition none_sent (fs : list field) (all : list value) (vs : list value) : bool :=
  forallb (fun fv => negb (sent (fst fv) all (snd fv))) (combine fs vs).

Definition default_is (f : field) (v : value) : Prop := fdefault f = Some v.

Fixpoint canonical_from (fs : list field) (all : list value) (vs : list value) : Prop :=
  match fs, vs with
  | [], [] => True
  | f :: fs', v :: vs' =>
      (if cond_holds f all
       then if is_none v
            then fopt f = true /\ default_is f v /\ none_sent fs' all vs' = true
            else val_ok (fty f) v = true
       else default_is f v)
      /\ canonical_from fs' all vs'
  | _, _ => False
  end.

Definition canonical (s : schema) (m : list value) : Prop := canonical_from (sfields s) m m.

(* ------------------------------------------------------------------------------------ *)
(* obfuscation (protocol/obfuscation.py)                                                 *)

(* rotate_key: int.from_bytes(key,'little') -> rotr32 (GENERATED) -> to_bytes(4,'little') *)
Definition rotate_key (key : bytes) (rot : Z) : bytes :=
  le 4 (Z.to_N (rotr32 (Z.of_N (leval key)) rot)).

Definition nthN (l : bytes) (i : N) : N := nth (N.to_nat i) l 0.

(* encode: `for idx, byt in enumerate(data)` with the key rotated before every 4-byte block *)
Fixpoint obf_enc_loop (key : bytes) (idx : N) (data : bytes) : bytes :=
  match data with
  | [] => []
  | b :: r =>
      let key' := if idx mod 4 =? 0 then rotate_key key OBF_ROT else key in
      N.lxor (nthN key' (idx mod 4)) b :: obf_enc_loop key' (idx + 1) r
  end.

Definition obf_encode (key data : bytes) : bytes := key ++ obf_enc_loop key 0 data.

(* decode: key table `for rot_bits in range(START, START - key_amount, -1)` *)
Fixpoint key_table (key : bytes) (j : nat) (cnt : nat) : bytes :=
  match cnt with
  | O => []
  | S c => rotate_key key (OBF_TABLE_START - Z.of_nat j) ++ key_table key (S j) c
  end.

Fixpoint xor_stream (full_key : bytes) (idx : N) (msg : bytes) : bytes :=
  match msg with
  | [] => []
  | b :: r => N.lxor b (nthN full_key (idx mod len full_key)) :: xor_stream full_key (idx + 1) r
  end.

Definition obf_decode (data : bytes) : bytes :=
  let key := firstn 4 data in
  let msg := skipn 4 data in
  let key_amount := N.min ((len msg + 3) / 4) (Z.to_N OBF_TABLE_MAX) in   (* min(ceil(n / 4), 32) *)
  let full_key := key_table key 0 (N.to_nat key_amount) in
  xor_stream full_key 0 msg.

(* the connection layer (DataConnection.encode_message_data / decode_message_data) *)
Definition wire_encode (obf : bool) (key : bytes) (frame : bytes) : bytes :=
  if obf then obf_encode key frame else frame.
Definition wire_decode (obf : bool) (data : bytes) : bytes :=
  if obf then obf_decode data else data.
