(* C01 wire types: shared vocabulary of the generated schema files (SlskGen.PrimGen,
   SlskGen.SchemaGen) and of the hand-written codec model (C01/Model.v).
   Definitions only. *)
From Coq Require Import ZArith List Bool String.
Import ListNotations.

(* A byte is an N below 256 (side predicate bytes_ok); a byte string is a list of them. *)
Definition bytes := list N.
Definition byte_ok (b : N) : Prop := (b < 256)%N.
Definition bytes_ok (bs : bytes) : Prop := Forall byte_ok bs.
Definition bytes_okb (bs : bytes) : bool := forallb (fun b => N.ltb b 256) bs.

(* Wire types.  [TInt w s]: struct format of w bytes, little endian, signed iff s.
   [TTicket]: messages._PeerInitTicket (uint32 on the way out; 4 or 8 bytes on the way in). *)
Inductive ty : Type :=
| TInt (w : nat) (signed : bool)
| TBool
| TStr
| TBytes
| TIp
| TTicket
| TArr (elem : ty)
| TRec (fields : list ty).

(* Values.  Strings are carried as their UTF-8 byte list; an IPv4 address as its 4 octets in
   textual order ("1.2.3.4" = [1;2;3;4]). [VNone] is Python's None. *)
Inductive value : Type :=
| VInt (z : Z)
| VBool (b : bool)
| VStr (s : bytes)
| VBytes (s : bytes)
| VIp (octets : bytes)
| VArr (vs : list value)
| VRec (vs : list value)
| VNone.

(* One dataclass field of a message: wire type, condition (index of the referenced field,
   polarity: true = if_true, false = if_false), 'optional' flag, dataclass default
   (None = the field is a required constructor argument). *)
Record field : Type := mkField {
  fname : string;
  fty : ty;
  fcond : option (nat * bool);
  fopt : bool;
  fdefault : option value
}.

Inductive family := FServer | FPeerInit | FPeer | FDistributed.
Inductive direction := DRequest | DResponse.

Record schema : Type := mkSchema {
  sname : string;
  sfamily : family;
  sdir : direction;
  msg_id : N;
  id_width : nat;          (* 1 = uint8 MESSAGE_ID, 4 = uint32 MESSAGE_ID *)
  compressed : bool;       (* serialize/deserialize overridden with compress/decompress=True *)
  sfields : list field
}.
