(* C01 property theorems (statements; proofs in Proofs.v).
   all_schemas / gen_fam_width / T_* / R_* are GENERATED from /repo/src/aioslsk/protocol/
   {messages,primitives}.py, rotr32 and the OBF_* constants from protocol/obfuscation.py, on every run;
   pinned_schemas from /verif/pinned/layout.json.  zlib is the pair (zc, zd) with the inverse law
   as an explicit premise. *)
From Slsk Require Import Base.Tac.
From Slsk Require Import C01.Types C01.Model C01.Proofs.
From SlskGen Require Import ObfGen PrimGen SchemaGen PinnedGen.
Open Scope N_scope.

Definition zlib_inverse (zc : bytes -> bytes) (zd : bytes -> option bytes) : Prop :=
  forall x, zd (zc x) = Some x.

(* --- obfuscation: every 4-byte key, every payload (any length: 0, <= 128, > 128 bytes) --- *)
Theorem C01_obf_roundtrip : forall key data, length key = 4%nat -> bytes_ok key ->
  obf_decode (obf_encode key data) = data.
Proof. exact obf_roundtrip. Qed.

(* bit-level specification of the generated rotate_key expression: rotation to the right *)
Theorem C01_rotr32_spec : forall k r i, (0 <= k < 4294967296)%Z -> (0 <= r < 32)%Z -> (0 <= i)%Z ->
  Z.testbit (rotr32 k r) i = if (i <? 32)%Z then Z.testbit k ((i + r) mod 32) else false.
Proof. exact rotr32_spec. Qed.

(* every byte string with a 4-byte key in front is the obfuscated form of exactly one payload *)
Theorem C01_obf_surjective : forall key msg, length key = 4%nat -> bytes_ok key ->
  obf_encode key (obf_decode (key ++ msg)) = key ++ msg.
Proof. exact obf_encode_decode. Qed.

(* --- type level: every wire type, incl. nested arrays of records --- *)
Theorem C01_type_roundtrip : forall t v b r, wf_ty t = true -> val_ok t v = true ->
  enc t v = Some b -> dec t (b ++ r) = Some (v, r).
Proof. intros t v b r W. apply enc_dec_wf. exact W. Qed.

Theorem C01_prims_wf : forallb wf_ty (filter (fun t => negb (is_ticket t)) all_prims) = true /\
                       forallb wf_ty all_records = true.
Proof. split; vm_compute; reflexivity. Qed.

(* The hand-optimised codecs of FileData / Attribute / DirectoryData (serialize, serialize_into,
   deserialize overrides; translated from their bodies into the field sequence they read / write) are the
   metadata-driven codec: same fields, same order, same wire types -- hence the same enc / dec. *)
Theorem C01_fast_codecs_generic : map (fun c => snd (fst c)) fast_codecs = map snd fast_codecs.
Proof. vm_compute. reflexivity. Qed.

Theorem C01_fast_codecs_same_codec : forall lbl fast gen, In (lbl, fast, gen) fast_codecs ->
  forall v bs, enc (TRec (map snd fast)) v = enc (TRec (map snd gen)) v /\
               dec (TRec (map snd fast)) bs = dec (TRec (map snd gen)) bs.
Proof.
  intros lbl fast gen I v bs.
  pose proof (proj1 (@map_ext_in_iff _ _ (fun c : String.string * list (String.string * ty) * list (String.string * ty) => snd (fst c)) (fun c => snd c) fast_codecs) C01_fast_codecs_generic _ I) as E. cbn [fst snd] in E.
  rewrite E. split; reflexivity.
Qed.

(* --- schema table of the current source is well formed (finite: vm_compute) --- *)
Theorem C01_schemas_wf : forallb wf_schema all_schemas = true.
Proof. exact schemas_wf. Qed.

Theorem C01_ids_unique : forall f d, In (f, d) tables -> nodup_ids (table all_schemas f d) = true.
Proof. exact ids_unique_at. Qed.

(* the id read by the family dispatcher (1 or 4 bytes at offset 4) identifies every class of the
   family, incl. DistributedServerSearchRequest (4-byte id inside the 1-byte family) *)
Theorem C01_dispatchable : forall f d s, In (f, d) tables -> In s (table all_schemas f d) ->
  dispatchable (gen_fam_width f) s = true.
Proof. exact dispatchable_at. Qed.

(* --- message level --- *)
Theorem C01_roundtrip : forall zc zd, zlib_inverse zc zd ->
  forall s m b, wf_schema s = true -> canonical s m ->
  enc_msg zc s m = Some b -> dec_msg zd s b = Some m.
Proof. intros zc zd Hz. exact (msg_roundtrip zc zd Hz). Qed.

Theorem C01_roundtrip_current : forall zc zd, zlib_inverse zc zd ->
  forall s m b, In s all_schemas -> canonical s m ->
  enc_msg zc s m = Some b -> dec_msg zd s b = Some m.
Proof. intros zc zd Hz s m b I. apply (msg_roundtrip zc zd Hz). apply schema_wf_in. exact I. Qed.

(* encoding an in-domain message only fails when it does not fit a uint32 length prefix *)
Theorem C01_enc_total : forall zc s m, wf_schema s = true -> canonical s m ->
  (exists b, enc_msg zc s m = Some b) \/
  (exists body, enc_fields (sfields s) m m = Some body /\
     u32max <= len (le (id_width s) (msg_id s)) + len (if compressed s then zc body else body)).
Proof. exact enc_msg_total. Qed.

Theorem C01_length_prefix : forall zc s m b, enc_msg zc s m = Some b ->
  (4 <= length b)%nat /\ leval (firstn 4 b) = len b - 4 /\
  firstn (id_width s) (skipn 4 b) = le (id_width s) (msg_id s).
Proof. exact length_prefix. Qed.

Theorem C01_dispatch : forall zc zd, zlib_inverse zc zd ->
  forall f d s m b, In (f, d) tables -> In s (table all_schemas f d) -> canonical s m ->
  enc_msg zc s m = Some b ->
  dispatch zd (table all_schemas f d) (gen_fam_width f) b = Some (s, m).
Proof. exact dispatch_current. Qed.

(* plain or obfuscated (any key), compressed or not *)
Theorem C01_wire_roundtrip : forall zc zd, zlib_inverse zc zd ->
  forall obf key f d s m b, length key = 4%nat -> bytes_ok key ->
  In (f, d) tables -> In s (table all_schemas f d) -> canonical s m ->
  enc_msg zc s m = Some b ->
  dispatch zd (table all_schemas f d) (gen_fam_width f) (wire_decode obf (wire_encode obf key b)) = Some (s, m).
Proof. exact wire_current. Qed.

(* --- byte compatibility: the layout of the current source IS the pinned layout --- *)
Theorem C01_layout_pinned :
  all_schemas = pinned_schemas /\
  (forall f, gen_fam_width f = pinned_fam_width f) /\
  all_prims = pinned_prims /\ all_records = pinned_records /\
  (KEY_SIZE, OBF_ROT, OBF_ROT_DEFAULT, OBF_TABLE_START, OBF_TABLE_MAX) = (4, 31, 31, 31, 32)%Z.
Proof.
  split; [vm_compute; reflexivity|]. split; [intros []; reflexivity|].
  split; [vm_compute; reflexivity|]. split; vm_compute; reflexivity.
Qed.

Theorem C01_bytes_as_pinned : forall zc i m,
  enc_msg zc (nth i all_schemas s_Login_Request) m = enc_msg zc (nth i pinned_schemas s_Login_Request) m.
Proof. intros. rewrite (proj1 C01_layout_pinned). reflexivity. Qed.

(* the executable domain check applied by the harness to every generated message implies [canonical] *)
Theorem C01_canonicalb_sound : forall s m, Slsk.C01.Eval.canonicalb s m = true -> canonical s m.
Proof. exact canonicalb_sound. Qed.

(* --- non-vacuity --- *)
Definition ex_login_ok : list value :=
  [VBool true; VStr [104; 105]; VIp [1; 2; 3; 4]; VStr [120]; VBool false; VNone].
Definition ex_login_fail : list value :=
  [VBool false; VNone; VNone; VNone; VNone; VStr [73; 78; 86]].
Definition ex_adduser : list value :=
  [VStr [195; 169]; VBool true; VInt 2; VRec [VInt 4294967295; VInt 18446744073709551615; VInt 0; VInt 1]; VNone].
Definition ex_search_reply : list value :=
  [VStr [117]; VInt 7;
   VArr [VRec [VInt 1; VStr [97; 92; 98]; VInt 1099511627776; VStr []; VArr [VRec [VInt 0; VInt 320]; VRec [VInt 1; VInt 4294967295]]]];
   VBool true; VInt 0; VInt 0; VInt 0; VNone].

Example C01_roundtrip_nonvacuous :
  canonical s_Login_Response ex_login_ok /\ canonical s_Login_Response ex_login_fail /\
  canonical s_AddUser_Response ex_adduser /\ canonical s_PeerSearchReply_Request ex_search_reply /\
  In s_PeerSearchReply_Request (table all_schemas FPeer DRequest) /\
  enc_msg (fun x => x) s_Login_Response ex_login_ok =
    Some [21;0;0;0; 1;0;0;0; 1; 2;0;0;0;104;105; 4;3;2;1; 1;0;0;0;120; 0] /\
  (exists b, enc_msg (fun x => 99 :: x) s_PeerSearchReply_Request ex_search_reply = Some b /\ (70 < length b)%nat) /\
  wf_ty R_DirectoryData = true /\
  val_ok (TArr R_FileData) (nth 2 ex_search_reply VNone) = true.
Proof.
  split; [vm_compute; tauto|]. split; [vm_compute; tauto|]. split; [vm_compute; tauto|].
  split; [vm_compute; tauto|].
  split; [vm_compute; repeat (first [left; reflexivity | right])|].
  split; [vm_compute; reflexivity|].
  split; [eexists; split; [vm_compute; reflexivity|vm_compute; lia]|].
  split; vm_compute; reflexivity.
Qed.

Example C01_obf_nonvacuous :
  obf_encode [1; 2; 3; 4] [10; 20; 30; 40; 50] <> [1; 2; 3; 4] ++ [10; 20; 30; 40; 50] /\
  obf_decode (obf_encode [255; 0; 128; 7] (repeat 65 200)) = repeat 65 200.
Proof. split; [vm_compute; discriminate|vm_compute; reflexivity]. Qed.
