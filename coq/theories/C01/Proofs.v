(* C01 proofs: little-endian integers, obfuscation round trip (bit-level rotr32 spec, 32-key
   cycle, index wrap above 128 bytes), type-level codec round trip for every wire type incl.
   nested arrays of records, field layer (conditions, optional suffix), message layer,
   dispatch.  No axioms; zlib enters as Section variables with the inverse law as hypothesis. *)
From Coq Require Import Nnat Znat.
From Slsk Require Import Base.Tac.
From Slsk Require Import C01.Types C01.Model.
From SlskGen Require Import ObfGen.
Open Scope N_scope.

(* ==================================================================================== *)
Open Scope N_scope.

(* ---------- little endian ---------- *)
Lemma le_length : forall w v, length (le w v) = w.
Proof. induction w; intros; cbn; auto. Qed.

Lemma pow256_S : forall w, pow256 (S w) = 256 * pow256 w.
Proof. intros. unfold pow256. rewrite Nat2N.inj_succ, N.pow_succ_r'. reflexivity. Qed.

Lemma pow256_pos : forall w, 0 < pow256 w.
Proof. intros. unfold pow256. apply N.neq_0_lt_0. apply N.pow_nonzero. discriminate. Qed.

Lemma leval_le : forall w v, v < pow256 w -> leval (le w v) = v.
Proof.
  induction w; intros v H.
  - unfold pow256 in H. cbn in *. lia.
  - rewrite pow256_S in H. cbn [le leval]. rewrite IHw by lia. lia.
Qed.

Lemma le_bytes_ok : forall w v, bytes_ok (le w v).
Proof. induction w; intros; cbn [le]; constructor.
  - unfold byte_ok. lia.
  - apply IHw.
Qed.

Lemma leval_lt : forall bs, bytes_ok bs -> leval bs < pow256 (length bs).
Proof.
  induction bs; intros H.
  - cbn. unfold pow256. cbn. lia.
  - inv H. cbn [leval length]. rewrite pow256_S. specialize (IHbs H3). unfold byte_ok in H2. lia.
Qed.

Lemma le_leval : forall bs, bytes_ok bs -> le (length bs) (leval bs) = bs.
Proof.
  induction bs; intros H; cbn [length le leval]; auto.
  inv H. unfold byte_ok in H2. f_equal.
  - lia.
  - replace ((a + 256 * leval bs) / 256) with (leval bs) by lia. apply IHbs; assumption.
Qed.

(* ---------- rotr32 ---------- *)
Open Scope Z_scope.
Definition two32 : Z := 4294967296.

Lemma testbit_high : forall k i, 0 <= k < two32 -> 32 <= i -> Z.testbit k i = false.
Proof.
  intros k i Hk Hi. destruct (Z.eq_dec k 0) as [->|Hn]; [apply Z.testbit_0_l|].
  apply Z.bits_above_log2; [lia|]. assert (Z.log2 k < 32); [|lia].
  apply Z.log2_lt_pow2; [lia|]. unfold two32 in Hk. change (2^32) with 4294967296. lia.
Qed.

Lemma rotr32_spec : forall k r i, 0 <= k < two32 -> 0 <= r < 32 -> 0 <= i ->
  Z.testbit (rotr32 k r) i = if i <? 32 then Z.testbit k ((i + r) mod 32) else false.
Proof.
  intros k r i Hk Hr Hi. unfold rotr32. cbn [snd].
  rewrite Z.lor_spec, Z.shiftr_spec, Z.land_spec, Z.shiftl_spec by lia.
  change 4294967295 with (Z.ones 32).
  destruct (Z.ltb_spec i 32).
  - rewrite Z.ones_spec_low by lia. rewrite andb_true_r.
    destruct (Z_lt_dec (i + r) 32).
    + replace ((i + r) mod 32) with (i + r) by lia.
      replace (Z.testbit k (i - (32 - r))) with false; [apply orb_false_r|].
      symmetry. apply Z.testbit_neg_r. lia.
    + rewrite (testbit_high k (i + r)) by lia. cbn [orb]. f_equal. lia.
  - rewrite Z.ones_spec_high by lia. rewrite andb_false_r, orb_false_r. apply testbit_high; lia.
Qed.

Lemma rotr32_range : forall k r, 0 <= k < two32 -> 0 <= r < 32 -> 0 <= rotr32 k r < two32.
Proof.
  intros k r Hk Hr.
  assert (Hnn : 0 <= rotr32 k r).
  { unfold rotr32. cbn [snd]. apply Z.lor_nonneg. split.
    - apply Z.shiftr_nonneg. lia.
    - apply Z.land_nonneg. right. lia. }
  split; auto.
  destruct (Z.eq_dec (rotr32 k r) 0) as [->|Hn]; [unfold two32; lia|].
  unfold two32. change 4294967296 with (2^32). apply Z.log2_lt_pow2; [lia|].
  destruct (Z_lt_dec (Z.log2 (rotr32 k r)) 32); auto. exfalso.
  pose proof (Z.bit_log2 (rotr32 k r) ltac:(lia)) as Hb.
  rewrite rotr32_spec in Hb by (auto; apply Z.log2_nonneg).
  destruct (Z.ltb_spec (Z.log2 (rotr32 k r)) 32); [lia|discriminate].
Qed.

Lemma rotr32_compose : forall k a b, 0 <= k < two32 -> 0 <= a < 32 -> 0 <= b < 32 ->
  rotr32 (rotr32 k a) b = rotr32 k ((a + b) mod 32).
Proof.
  intros k a b Hk Ha Hb. apply Z.bits_inj'. intros i Hi.
  pose proof (rotr32_range k a Hk Ha).
  rewrite !rotr32_spec by lia.
  destruct (Z.ltb_spec i 32); auto.
  destruct (Z.ltb_spec ((i + b) mod 32) 32); [|lia]. f_equal. lia.
Qed.

Close Scope Z_scope.
Open Scope N_scope.

(* ==================================================================================== *)
Open Scope Z_scope.

Lemma rotr32_zero : forall k, 0 <= k < two32 -> rotr32 k 0 = k.
Proof.
  intros k Hk. apply Z.bits_inj'. intros i Hi. rewrite rotr32_spec by lia.
  destruct (Z.ltb_spec i 32).
  - f_equal. lia.
  - symmetry. apply testbit_high; lia.
Qed.

Definition kint (key : bytes) : Z := Z.of_N (leval key).
Definition RK (k : Z) (r : Z) : bytes := le 4 (Z.to_N (rotr32 k r)).

Definition key_ok (key : bytes) : Prop := length key = 4%nat /\ bytes_ok key.

Lemma kint_range : forall key, key_ok key -> 0 <= kint key < two32.
Proof.
  intros key [L B]. unfold kint. pose proof (leval_lt key B) as H. rewrite L in H.
  change (pow256 4) with 4294967296%N in H. unfold two32. lia.
Qed.

Lemma rotate_key_RK : forall key r, rotate_key key r = RK (kint key) r.
Proof. reflexivity. Qed.

Lemma RK_ok : forall k r, key_ok (RK k r).
Proof. intros. split; [apply le_length|apply le_bytes_ok]. Qed.

Lemma kint_RK : forall k r, 0 <= k < two32 -> 0 <= r < 32 -> kint (RK k r) = rotr32 k r.
Proof.
  intros k r Hk Hr. unfold kint, RK. pose proof (rotr32_range k r Hk Hr) as H.
  rewrite leval_le; [lia|]. change (pow256 4) with 4294967296%N. unfold two32 in H. lia.
Qed.

Lemma RK_zero : forall key, key_ok key -> RK (kint key) 0 = key.
Proof.
  intros key K. pose proof (kint_range key K) as H. unfold RK. rewrite rotr32_zero by auto.
  unfold kint. rewrite N2Z.id. destruct K as [L B]. rewrite <- L. apply le_leval; auto.
Qed.

Lemma RK_RK : forall k a b, 0 <= k < two32 -> 0 <= a < 32 -> 0 <= b < 32 ->
  rotate_key (RK k a) b = RK k ((a + b) mod 32).
Proof.
  intros. rewrite rotate_key_RK, kint_RK by auto. unfold RK. rewrite rotr32_compose by auto. reflexivity.
Qed.

(* keystream byte at position idx: block i = idx/4 uses rotate_key key (31 - i mod 32) *)
Definition ksx (k : Z) (idx : N) : N := nthN (RK k (31 - Z.of_N ((idx / 4) mod 32))) (idx mod 4).

Fixpoint xs (k : Z) (idx : N) (data : bytes) : bytes :=
  match data with
  | [] => []
  | b :: r => N.lxor (ksx k idx) b :: xs k (idx + 1) r
  end.

Lemma xs_length : forall k data idx, length (xs k idx data) = length data.
Proof. induction data; intros; cbn; auto. Qed.

Lemma xs_involutive : forall k data idx, xs k idx (xs k idx data) = data.
Proof.
  induction data; intros; cbn [xs]; auto. rewrite IHdata. f_equal.
  rewrite <- N.lxor_assoc, N.lxor_nilpotent. apply N.lxor_0_l.
Qed.

Lemma xs_app : forall k a b idx, xs k idx (a ++ b) = xs k idx a ++ xs k (idx + len a) b.
Proof.
  induction a; intros; cbn [xs app].
  - unfold len. cbn. f_equal. lia.
  - f_equal. rewrite IHa. f_equal. f_equal. unfold len. cbn [length]. lia.
Qed.

(* the encoder's key state before processing position idx *)
Definition enc_state (k : Z) (idx : N) : bytes :=
  RK k ((31 * Z.of_N (if (idx mod 4 =? 0)%N then idx / 4 else idx / 4 + 1)%N) mod 32).

Lemma enc_loop_xs : forall k data idx, 0 <= k < two32 ->
  obf_enc_loop (enc_state k idx) idx data = xs k idx data.
Proof.
  intros k data. induction data; intros idx Hk; cbn [obf_enc_loop xs]; auto.
  change OBF_ROT with 31.
  assert (Hkey : (if (idx mod 4 =? 0)%N then rotate_key (enc_state k idx) 31 else enc_state k idx)
                 = RK k (31 - Z.of_N ((idx / 4) mod 32))).
  { unfold enc_state. destruct (N.eqb_spec (idx mod 4) 0).
    - rewrite RK_RK by lia. f_equal. lia.
    - f_equal. lia. }
  rewrite Hkey. f_equal.
  rewrite <- (IHdata (idx + 1)%N Hk). f_equal.
  unfold enc_state. f_equal.
  destruct (N.eqb_spec ((idx + 1) mod 4) 0); lia.
Qed.

Lemma enc_state_0 : forall key, key_ok key -> enc_state (kint key) 0 = key.
Proof. intros. unfold enc_state. cbn. apply RK_zero; auto. Qed.

(* decoder key table *)
Lemma key_table_length : forall key cnt j, length (key_table key j cnt) = (4 * cnt)%nat.
Proof.
  induction cnt; intros; cbn [key_table]; auto.
  rewrite app_length, IHcnt. rewrite rotate_key_RK. unfold RK. rewrite le_length. lia.
Qed.

Lemma key_table_nth : forall key cnt j p, (p < 4 * cnt)%nat ->
  nth p (key_table key j cnt) 0%N =
  nth (p mod 4) (rotate_key key (31 - Z.of_nat (j + p / 4))) 0%N.
Proof.
  induction cnt; intros j p Hp; [lia|].
  cbn [key_table]. change OBF_TABLE_START with 31.
  assert (L : length (rotate_key key (31 - Z.of_nat j)) = 4%nat) by (rewrite rotate_key_RK; apply le_length).
  destruct (Nat.ltb_spec p 4).
  - rewrite app_nth1 by lia. replace (p mod 4)%nat with p by lia. replace (j + p / 4)%nat with j by lia. reflexivity.
  - rewrite app_nth2 by lia. rewrite L. rewrite IHcnt by lia.
    replace ((p - 4) mod 4)%nat with (p mod 4)%nat by lia.
    replace (S j + (p - 4) / 4)%nat with (j + p / 4)%nat by lia. reflexivity.
Qed.

Lemma table_index : forall n idx, (idx < n)%N ->
  let m := N.min ((n + 3) / 4) 32 in
  (idx mod (4 * m) mod 4 = idx mod 4 /\ (idx mod (4 * m)) / 4 = (idx / 4) mod 32)%N.
Proof.
  intros n idx Hlt m.
  destruct (N.min_spec ((n + 3) / 4) 32) as [[H1 H2]|[H1 H2]]; fold m in H2; rewrite H2.
  - assert (idx < 4 * ((n + 3) / 4))%N by lia.
    rewrite (N.mod_small idx (4 * ((n + 3) / 4))) by assumption. split; auto. rewrite (N.mod_small (idx / 4)) by lia. reflexivity.
  - change (4 * 32)%N with 128%N. lia.
Qed.

Lemma dec_stream_xs : forall key n msg idx, key_ok key -> (idx + len msg <= n)%N ->
  xor_stream (key_table key 0 (N.to_nat (N.min ((n + 3) / 4) 32))) idx msg = xs (kint key) idx msg.
Proof.
  intros key n msg. induction msg; intros idx K Hb; cbn [xor_stream xs]; auto.
  assert (Hlt : (idx < n)%N) by (unfold len in Hb; cbn [length] in Hb; lia).
  rewrite IHmsg by (auto; unfold len in *; cbn [length] in Hb; lia).
  f_equal. rewrite N.lxor_comm. f_equal.
  set (m := N.min ((n + 3) / 4) 32).
  unfold ksx, nthN, len. rewrite key_table_length.
  assert (Hm : (1 <= m <= 32)%N) by (unfold m; lia).
  set (p := N.to_nat (idx mod N.of_nat (4 * N.to_nat m))).
  assert (Hp : (p < 4 * N.to_nat m)%nat).
  { unfold p. pose proof (N.mod_upper_bound idx (N.of_nat (4 * N.to_nat m))). lia. }
  rewrite key_table_nth by exact Hp. rewrite rotate_key_RK.
  assert (E : (N.of_nat p = idx mod (4 * m))%N).
  { unfold p. rewrite N2Nat.id. f_equal. lia. }
  pose proof (table_index n idx Hlt) as E2. fold m in E2.
  destruct E2 as [Ea Eb].
  replace (p mod 4)%nat with (N.to_nat (idx mod 4)) by lia.
  replace (Z.of_nat (0 + p / 4)) with (Z.of_N ((idx / 4) mod 32)) by lia.
  reflexivity.
Qed.

Lemma firstn_app_exact : forall {A} (a b : list A) n, length a = n -> firstn n (a ++ b) = a.
Proof. intros. subst. rewrite firstn_app, Nat.sub_diag, firstn_all. cbn. apply app_nil_r. Qed.
Lemma skipn_app_exact : forall {A} (a b : list A) n, length a = n -> skipn n (a ++ b) = b.
Proof. intros. subst. rewrite skipn_app, Nat.sub_diag, skipn_all. reflexivity. Qed.

Lemma obf_enc_loop_xs0 : forall key data, key_ok key -> obf_enc_loop key 0 data = xs (kint key) 0 data.
Proof.
  intros key data K. rewrite <- (enc_state_0 key K) at 1. apply enc_loop_xs. apply kint_range; auto.
Qed.

Lemma obf_decode_xs : forall key msg, key_ok key -> obf_decode (key ++ msg) = xs (kint key) 0 msg.
Proof.
  intros key msg K. unfold obf_decode. destruct K as [L B].
  rewrite firstn_app_exact, skipn_app_exact by auto.
  change (Z.to_N OBF_TABLE_MAX) with 32%N.
  apply dec_stream_xs; [split; auto|lia].
Qed.

Theorem obf_roundtrip : forall key data, length key = 4%nat -> bytes_ok key ->
  obf_decode (obf_encode key data) = data.
Proof.
  intros key data L B. unfold obf_encode. rewrite obf_decode_xs by (split; auto).
  rewrite obf_enc_loop_xs0 by (split; auto). apply xs_involutive.
Qed.

(* the decoder is an involution-like bijection on the payload too: re-encoding a decoded frame
   with its own key gives the frame back (every byte string of >= 4 bytes is a valid obfuscated frame) *)
Theorem obf_encode_decode : forall key msg, length key = 4%nat -> bytes_ok key ->
  obf_encode key (obf_decode (key ++ msg)) = key ++ msg.
Proof.
  intros key msg L B. unfold obf_encode. rewrite obf_decode_xs by (split; auto).
  rewrite obf_enc_loop_xs0 by (split; auto). rewrite xs_involutive. reflexivity.
Qed.

(* prefix compatibility: the reader decodes the 8-byte header alone to learn the length *)
Theorem obf_decode_prefix : forall key a b, length key = 4%nat -> bytes_ok key ->
  obf_decode (key ++ a ++ b) = obf_decode (key ++ a) ++ skipn (length a) (obf_decode (key ++ a ++ b)).
Proof.
  intros key a b L B. rewrite !obf_decode_xs by (split; auto). rewrite xs_app.
  rewrite skipn_app_exact by apply xs_length. reflexivity.
Qed.

Lemma obf_decode_length : forall key msg, length key = 4%nat -> bytes_ok key ->
  length (obf_decode (key ++ msg)) = length msg.
Proof. intros. rewrite obf_decode_xs by (split; auto). apply xs_length. Qed.

Close Scope Z_scope.
Open Scope N_scope.

(* ==================================================================================== *)
Open Scope N_scope.

(* ---------- induction principle for the nested type ---------- *)
Section TyInd.
  Variable P : ty -> Prop.
  Hypothesis HInt : forall w s, P (TInt w s).
  Hypothesis HBool : P TBool.
  Hypothesis HStr : P TStr.
  Hypothesis HBytes : P TBytes.
  Hypothesis HIp : P TIp.
  Hypothesis HTicket : P TTicket.
  Hypothesis HArr : forall e, P e -> P (TArr e).
  Hypothesis HRec : forall fs, Forall P fs -> P (TRec fs).
  Fixpoint ty_ind2 (t : ty) : P t :=
    match t with
    | TInt w s => HInt w s
    | TBool => HBool
    | TStr => HStr
    | TBytes => HBytes
    | TIp => HIp
    | TTicket => HTicket
    | TArr e => HArr e (ty_ind2 e)
    | TRec fs => HRec fs ((fix go (fs : list ty) : Forall P fs :=
                             match fs with
                             | [] => Forall_nil P
                             | f :: r => Forall_cons f (ty_ind2 f) (go r)
                             end) fs)
    end.
End TyInd.

(* ---------- helpers ---------- *)
Lemma len_app : forall {A} (a b : list A), len (a ++ b) = len a + len b.
Proof. intros. unfold len. rewrite app_length. lia. Qed.

Lemma len_cons : forall {A} (a : A) l, len (a :: l) = len l + 1.
Proof. intros. unfold len. cbn [length]. lia. Qed.

Lemma take_app : forall w a r, length a = w -> take w (a ++ r) = Some (a, r).
Proof.
  intros. unfold take. rewrite app_length.
  destruct (Nat.leb_spec w (length a + length r)); [|lia].
  rewrite firstn_app_exact, skipn_app_exact by auto. reflexivity.
Qed.

Lemma dec_uint_le : forall w v r, v < pow256 w -> dec_uint w (le w v ++ r) = Some (v, r).
Proof. intros. unfold dec_uint. rewrite take_app by apply le_length. rewrite leval_le by auto. reflexivity. Qed.

Lemma pow256_4 : pow256 4 = u32max. Proof. reflexivity. Qed.

Lemma enc_int_length : forall w s z b, enc_int w s z = Some b -> length b = w.
Proof.
  intros w s z b H. unfold enc_int in H.
  destruct s; destr_if; inv H; apply le_length.
Qed.

Lemma enc_int_spec : forall w s z b, enc_int w s z = Some b ->
  let m := Z.of_N (pow256 w) in
  b = le w (Z.to_N (if s then (z mod m)%Z else z)) /\
  (if s then (- (m / 2) <= z < m / 2)%Z else (0 <= z < m)%Z).
Proof.
  intros w s z b H m. unfold enc_int in H. fold m in H. destruct s.
  - destruct (andb (Z.leb (- (m / 2)) z) (Z.ltb z (m / 2))) eqn:E; [|discriminate].
    split; [congruence|lia].
  - destruct (andb (Z.leb 0 z) (Z.ltb z m)) eqn:E; [|discriminate]. split; [congruence|lia].
Qed.

Lemma dec_enc_int : forall w s z b r, (1 <= w)%nat -> enc_int w s z = Some b ->
  dec_int w s (b ++ r) = Some (z, r).
Proof.
  intros w s z b r Hw H. apply enc_int_spec in H as [-> Hr]. unfold dec_int.
  assert (exists m', pow256 w = 256 * m' /\ 0 < m') as [m' [HS Hp]].
  { destruct w as [|w']; [lia|]. exists (pow256 w'). split; [apply pow256_S|apply pow256_pos]. }
  remember (pow256 w) as m eqn:Hm.
  destruct s.
  - rewrite dec_uint_le by (rewrite <- Hm; lia).
    f_equal. f_equal. cbn [andb].
    assert (Hmod : (z mod Z.of_N m = if z <? 0 then z + Z.of_N m else z)%Z).
    { destruct (Z.ltb_spec z 0).
      - symmetry. apply Z.mod_unique with (q := (-1)%Z); lia.
      - apply Z.mod_small; lia. }
    rewrite Hmod. destruct (Z.ltb_spec z 0);
    destruct (N.leb_spec (m / 2) (Z.to_N (z + Z.of_N m))); destruct (N.leb_spec (m / 2) (Z.to_N z)); lia.
  - rewrite dec_uint_le by (rewrite <- Hm; lia). cbn [andb]. f_equal. f_equal. lia.
Qed.

Lemma opt_concat_min : forall (l : list (option bytes)) b k,
  opt_concat l = Some b -> (forall x, In (Some x) l -> (k <= length x)%nat) -> (k * length l <= length b)%nat.
Proof.
  induction l as [|o l IH]; intros b k H Hk; cbn in *.
  - lia.
  - destruct o as [x|]; [|discriminate]. destruct (opt_concat l) as [o'|] eqn:E; [|discriminate]. inv H.
    rewrite app_length. specialize (IH o' k eq_refl (fun x Hx => Hk x (or_intror Hx))).
    specialize (Hk x (or_introl eq_refl)). lia.
Qed.

(* ---------- lower bound on encoded size ---------- *)
Definition rec_min := fix go (fs : list ty) : nat := match fs with [] => O | f :: r => (min_size f + go r)%nat end.
Definition rec_enc := fix go (fs : list ty) (vs : list value) {struct fs} : option bytes :=
         match fs, vs with
         | [], [] => Some []
         | f :: fs', x :: vs' =>
             match enc f x, go fs' vs' with
             | Some b, Some o => Some (b ++ o)
             | _, _ => None
             end
         | _, _ => None
         end.
Definition rec_dec := fix go (fs : list ty) (bs : bytes) {struct fs} : option (list value * bytes) :=
               match fs with
               | [] => Some ([], bs)
               | f :: fs' =>
                   match dec f bs with
                   | Some (v, r) =>
                       match go fs' r with
                       | Some (vs, r') => Some (v :: vs, r')
                       | None => None
                       end
                   | None => None
                   end
               end.
Definition rec_ok := fix go (fs : list ty) (vs : list value) {struct fs} : bool :=
         match fs, vs with
         | [], [] => true
         | f :: fs', x :: vs' => andb (val_ok f x) (go fs' vs')
         | _, _ => false
         end.
Definition rec_wf := fix go (fs : list ty) : bool := match fs with [] => true | f :: r => andb (wf_ty f) (go r) end.

Lemma enc_min : forall t v b, enc t v = Some b -> (min_size t <= length b)%nat.
Proof.
  induction t as [w s| | | | | |e IHe|fs IHfs] using ty_ind2; intros v b He; destruct v; try discriminate; cbn [enc min_size] in *.
  - apply enc_int_length in He. lia.
  - injection He as <-. cbn. lia.
  - destr_if; [|discriminate]. injection He as <-. cbn [le app length]. lia.
  - destr_if; [|discriminate]. injection He as <-. cbn [le app length]. lia.
  - destruct (Nat.eqb_spec (length octets) 4); [|discriminate]. injection He as <-. rewrite rev_length. lia.
  - apply enc_int_length in He. lia.
  - destr_if; [|discriminate]. destruct (opt_concat _); [|discriminate]. injection He as <-. cbn [le app length]. lia.
  - fold rec_enc in He. fold rec_min. revert vs b He.
    induction IHfs as [|f fs Hf Hfs IH]; intros vs b He; destruct vs; cbn in *; try discriminate.
    + injection He as <-. cbn. lia.
    + destruct (enc f v) eqn:E1; [|discriminate]. destruct (rec_enc fs vs) eqn:E2; [|discriminate]. injection He as <-.
      rewrite app_length. specialize (Hf _ _ E1). specialize (IH _ _ E2). lia.
Qed.

(* ---------- encoding succeeds on in-domain values ---------- *)
Lemma enc_total : forall t v, val_ok t v = true -> exists b, enc t v = Some b.
Proof.
  induction t as [w s| | | | | |t IHt|fs H0] using ty_ind2; intros v H; destruct v; try discriminate; cbn [enc val_ok] in *.
  - unfold enc_int. destruct s; rewrite H; eauto.
  - eauto.
  - apply andb_prop in H as [_ H]. rewrite H. eauto.
  - apply andb_prop in H as [_ H]. rewrite H. eauto.
  - apply andb_prop in H as [_ H]. rewrite H. eauto.
  - unfold enc_int. change (Z.of_N (pow256 4)) with (Z.of_N u32max). cbn [andb] in *. rewrite H. eauto.
  - apply andb_prop in H as [H1 H2]. rewrite H2.
    assert (exists b, opt_concat (map (enc t) vs) = Some b) as [b Hb].
    { clear H2. induction vs; cbn in *; eauto.
      apply andb_prop in H1 as [Ha Hr]. destruct (IHt _ Ha) as [ba Ea]. rewrite Ea.
      destruct (IHvs Hr) as [br Er]. rewrite Er. eauto. }
    rewrite Hb. eauto.
  - fold rec_enc. fold rec_ok in H. revert vs H.
    induction H0 as [|f fs Hf Hfs IH]; intros vs H; destruct vs; cbn in *; try discriminate; eauto.
    apply andb_prop in H as [Ha Hr]. destruct (Hf _ Ha) as [ba Ea]. rewrite Ea.
    destruct (IH _ Hr) as [br Er]. rewrite Er. eauto.
Qed.

(* ---------- type-level round trip ---------- *)
Lemma Nto_nat_len : forall {A} (l : list A), N.to_nat (len l) = length l.
Proof. intros. unfold len. apply Nat2N.id. Qed.

Lemma decode_string_valid : forall s, utf8_valid s = true -> decode_string s = Some s.
Proof. intros. unfold decode_string. rewrite H. reflexivity. Qed.

Lemma dec_arr_roundtrip : forall e,
  (forall v b r, val_ok e v = true -> enc e v = Some b -> dec e (b ++ r) = Some (v, r)) ->
  forall vs b r fuel, forallb (val_ok e) vs = true -> opt_concat (map (enc e) vs) = Some b ->
  (length vs <= fuel)%nat ->
  dec_arr (dec e) fuel (len vs) (b ++ r) = Some (vs, r).
Proof.
  intros e He. induction vs as [|v vs IH]; intros b r fuel Hok Hc Hf.
  - cbn in Hc. inv Hc. destruct fuel; reflexivity.
  - cbn in Hok, Hc. apply andb_prop in Hok as [Hv Hvs].
    destruct (enc e v) as [bv|] eqn:Ev; [|discriminate].
    destruct (opt_concat (map (enc e) vs)) as [br|] eqn:Er; [|discriminate]. inv Hc.
    destruct fuel as [|f]; [cbn in Hf; lia|].
    cbn [dec_arr]. rewrite len_cons.
    destruct (N.eqb_spec (len vs + 1) 0); [lia|].
    rewrite <- app_assoc. rewrite (He _ _ _ Hv Ev).
    replace (len vs + 1 - 1) with (len vs) by lia.
    rewrite (IH br r f Hvs eq_refl) by (cbn in Hf; lia). reflexivity.
Qed.

Lemma hdr_dec : forall n payload r, n < u32max ->
  dec_uint 4 ((le 4 n ++ payload) ++ r) = Some (n, payload ++ r).
Proof. intros. rewrite <- app_assoc. apply dec_uint_le. rewrite pow256_4. auto. Qed.

Lemma enc_dec_wf : forall t, wf_ty t = true -> forall v b r,
  val_ok t v = true -> enc t v = Some b -> dec t (b ++ r) = Some (v, r).
Proof.
  induction t as [w s| | | | | |t IHt|fs H] using ty_ind2; intros W v b r Hok He; destruct v; try discriminate; cbn [enc dec val_ok wf_ty] in *.
  - apply andb_prop in W as [W1 W2]. rewrite (dec_enc_int w s z b r) by (auto; lia). reflexivity.
  - assert (b = [if b0 then 1 else 0]) as -> by congruence. unfold dec_uint. cbn. destruct b0; reflexivity.
  - apply andb_prop in Hok as [Hok Hl]. apply andb_prop in Hok as [_ Hu]. rewrite Hl in He.
    assert (b = le 4 (len s) ++ s) as -> by congruence.
    rewrite hdr_dec by lia.
    rewrite len_app. destruct (N.leb_spec (len s) (len s + len r)); [|lia].
    rewrite Nto_nat_len. rewrite firstn_app_exact, skipn_app_exact by reflexivity.
    rewrite decode_string_valid by auto. reflexivity.
  - apply andb_prop in Hok as [_ Hl]. rewrite Hl in He.
    assert (b = le 4 (len s) ++ s) as -> by congruence.
    rewrite hdr_dec by lia.
    rewrite len_app. destruct (N.leb_spec (len s) (len s + len r)); [|lia].
    rewrite Nto_nat_len. rewrite firstn_app_exact, skipn_app_exact by reflexivity. reflexivity.
  - destruct (Nat.eqb_spec (length octets) 4); [|discriminate].
    assert (b = rev octets) as -> by congruence.
    rewrite take_app by (rewrite rev_length; auto). rewrite rev_involutive. reflexivity.
  - apply andb_prop in W as [W1 W2]. apply andb_prop in Hok as [Hvs Hl]. rewrite Hl in He.
    destruct (opt_concat (map (enc t) vs)) as [bb|] eqn:Ec; [|discriminate].
    assert (b = le 4 (len vs) ++ bb) as -> by congruence.
    rewrite hdr_dec by lia.
    rewrite (dec_arr_roundtrip t (IHt W1) vs bb r); auto.
    rewrite app_length.
    assert (1 * length (map (enc t) vs) <= length bb)%nat.
    { apply opt_concat_min; auto. intros x Hx. apply in_map_iff in Hx as [v' [Hv' _]].
      pose proof (enc_min _ _ _ Hv'). lia. }
    rewrite map_length in *. lia.
  - fold rec_enc in He. fold rec_ok in Hok. fold rec_wf in W. fold rec_dec.
    assert (G : rec_dec fs (b ++ r) = Some (vs, r)); [|rewrite G; reflexivity].
    revert vs b W Hok He.
    induction H as [|f fs Hf Hfs IH]; intros vs b W Hok He; destruct vs; cbn in *; try discriminate.
    + assert (b = []) as -> by congruence. reflexivity.
    + apply andb_prop in W as [Wf Wr]. apply andb_prop in Hok as [Hv Hr].
      destruct (enc f v) eqn:E1; [|discriminate]. destruct (rec_enc fs vs) eqn:E2; [|discriminate].
      assert (b = b0 ++ b1) as -> by congruence.
      rewrite <- app_assoc. rewrite (Hf Wf _ _ _ Hv E1). rewrite (IH _ _ Wr Hr E2). reflexivity.
Qed.

Lemma enc_dec_ticket : forall v b, val_ok TTicket v = true -> enc TTicket v = Some b ->
  dec TTicket b = Some (v, []).
Proof.
  intros v b Hok He. destruct v; try discriminate. cbn [enc dec] in *.
  pose proof (enc_int_length _ _ _ _ He) as L. rewrite L. cbn [Nat.eqb].
  rewrite <- (app_nil_r b). rewrite (dec_enc_int 4 false z b []) by (auto; lia). reflexivity.
Qed.

Close Scope Z_scope.
Open Scope N_scope.

(* ==================================================================================== *)
Open Scope N_scope.

(* ---------- field layer ---------- *)

(* what the field loop of deserialize is expected to put into field_map *)
Fixpoint expected (fs : list field) (all vs : list value) : list (option value) :=
  match fs, vs with
  | f :: fs', v :: vs' => (if sent f all v then Some v else None) :: expected fs' all vs'
  | _, _ => []
  end.

(* every earlier mandatory unconditional field has been decoded to its true value *)
Definition acc_inv (pre : list field) (acc : list (option value)) (all : list value) : Prop :=
  length acc = length pre /\
  forall i g, nth_error pre i = Some g -> fopt g = false -> fcond g = None ->
              nth_error acc i = Some (Some (nth i all VNone)).

Lemma none_sent_enc : forall fs all vs, length fs = length vs -> none_sent fs all vs = true ->
  enc_fields fs all vs = Some [].
Proof.
  induction fs as [|f fs IH]; intros all vs L H; destruct vs; cbn in *; try discriminate; auto.
  unfold none_sent in H. cbn in H. apply andb_prop in H as [H1 H2].
  apply negb_true_iff in H1. rewrite H1. apply IH; auto.
Qed.

Lemma none_sent_expected : forall fs all vs, none_sent fs all vs = true ->
  expected fs all vs = map (fun _ => None) (combine fs vs).
Proof.
  induction fs as [|f fs IH]; intros all vs H; destruct vs; cbn in *; auto.
  unfold none_sent in H. cbn in H. apply andb_prop in H as [H1 H2].
  apply negb_true_iff in H1. rewrite H1. f_equal. apply IH; auto.
Qed.

Lemma canonical_length : forall fs all vs, canonical_from fs all vs -> length fs = length vs.
Proof.
  induction fs; intros all vs H; destruct vs; cbn in *; try contradiction; auto.
  destruct H as [_ H]. f_equal. eapply IHfs; eauto.
Qed.

Lemma nth_skipn_head : forall {A} (l : list A) k v r d, skipn k l = v :: r -> nth k l d = v.
Proof.
  induction l; intros k v r d H; destruct k; cbn in *; try discriminate.
  - congruence.
  - eapply IHl; eauto.
Qed.

Lemma skipn_S_tail : forall {A} (l : list A) k v r, skipn k l = v :: r -> skipn (S k) l = r.
Proof.
  induction l; intros k v r H; destruct k; cbn in *; try discriminate.
  - congruence.
  - eapply IHl; eauto.
Qed.

Lemma acc_inv_snoc_none : forall pre acc all f,
  acc_inv pre acc all -> fcond f <> None -> acc_inv (pre ++ [f]) (acc ++ [None]) all.
Proof.
  intros pre acc all f [L I] Hc. split; [rewrite !app_length; cbn; lia|].
  intros i g Hg Ho Hn. destruct (Nat.lt_ge_cases i (length pre)).
  - rewrite nth_error_app1 in Hg by lia. rewrite nth_error_app1 by lia. eauto.
  - rewrite nth_error_app2 in Hg by lia. destruct (i - length pre)%nat eqn:E; cbn in Hg.
    + inv Hg. contradiction.
    + destruct n; discriminate.
Qed.

Lemma acc_inv_snoc_none_opt : forall pre acc all f,
  acc_inv pre acc all -> fopt f = true -> acc_inv (pre ++ [f]) (acc ++ [None]) all.
Proof.
  intros pre acc all f [L I] Hc. split; [rewrite !app_length; cbn; lia|].
  intros i g Hg Ho Hn. destruct (Nat.lt_ge_cases i (length pre)).
  - rewrite nth_error_app1 in Hg by lia. rewrite nth_error_app1 by lia. eauto.
  - rewrite nth_error_app2 in Hg by lia. destruct (i - length pre)%nat eqn:E; cbn in Hg.
    + inv Hg. congruence.
    + destruct n; discriminate.
Qed.

Lemma acc_inv_snoc_some : forall pre acc all f v,
  acc_inv pre acc all -> nth (length pre) all VNone = v -> acc_inv (pre ++ [f]) (acc ++ [Some v]) all.
Proof.
  intros pre acc all f v [L I] Hv. split; [rewrite !app_length; cbn; lia|].
  intros i g Hg Ho Hn. destruct (Nat.lt_ge_cases i (length pre)).
  - rewrite nth_error_app1 in Hg by lia. rewrite nth_error_app1 by lia. eauto.
  - rewrite nth_error_app2 in Hg by lia. destruct (i - length pre)%nat eqn:E; cbn in Hg.
    + assert (i = length pre) by lia. subst i. rewrite nth_error_app2 by lia. rewrite L, Nat.sub_diag. cbn. congruence.
    + destruct n; discriminate.
Qed.

Lemma needs_spec : forall pre acc all f last bs, acc_inv pre acc all -> wf_field pre f last = true ->
  needs f acc bs = Some (if cond_holds f all then (if fopt f then negb (Nat.eqb (length bs) 0) else true) else false).
Proof.
  intros pre acc all f last bs [L I] W. unfold needs, cond_holds.
  destruct (fcond f) as [[i pol]|] eqn:Ec; auto.
  unfold wf_field in W. rewrite Ec in W. apply andb_prop in W as [W _]. apply andb_prop in W as [_ W].
  destruct (nth_error pre i) as [g|] eqn:Eg; [|discriminate].
  apply andb_prop in W as [_ W]. apply andb_prop in W as [W1 W2].
  apply negb_true_iff in W1. destruct (fcond g) eqn:Ecg; [discriminate|].
  rewrite (I i g Eg W1 Ecg). destruct (eqb (truthy (nth i all VNone)) pol); reflexivity.
Qed.

Lemma wf_field_nonempty : forall pre f last v b, wf_field pre f last = true -> is_ticket (fty f) = false ->
  enc (fty f) v = Some b -> (1 <= length b)%nat.
Proof.
  intros pre f last v b W T E. unfold wf_field in W. rewrite T in W.
  apply andb_prop in W as [W _]. apply andb_prop in W as [W _]. apply andb_prop in W as [_ W].
  apply Nat.leb_le in W. pose proof (enc_min _ _ _ E). lia.
Qed.

Lemma fields_roundtrip : forall fs pre acc all vs b,
  skipn (length pre) all = vs ->
  acc_inv pre acc all ->
  wf_fields pre fs = true ->
  canonical_from fs all vs ->
  enc_fields fs all vs = Some b ->
  dec_fields fs acc b = Some (expected fs all vs, []).
Proof.
  induction fs as [|f fs IH]; intros pre acc all vs b Hs Hacc W C E.
  - destruct vs; [|contradiction]. cbn in E. assert (b = []) as -> by congruence. reflexivity.
  - destruct vs as [|v vs]; [contradiction|].
    cbn [wf_fields] in W. apply andb_prop in W as [Wf Wr].
    cbn [canonical_from] in C. destruct C as [Cf Cr].
    cbn [enc_fields] in E. cbn [dec_fields expected].
    rewrite (needs_spec pre acc all f _ b Hacc Wf).
    pose proof (nth_skipn_head all (length pre) v vs VNone Hs) as Hnth.
    assert (Hs' : skipn (length (pre ++ [f])) all = vs).
    { rewrite app_length. cbn. rewrite Nat.add_1_r. eapply skipn_S_tail; eauto. }
    unfold sent in *. destruct (cond_holds f all) eqn:Ech.
    + destruct (is_none v) eqn:En.
      * (* optional, absent: nothing more is sent, no bytes left *)
        destruct Cf as [Co [Cd Cn]]. cbn [negb andb] in *.
        rewrite (none_sent_enc fs all vs (canonical_length _ _ _ Cr) Cn) in E.
        assert (b = []) as -> by congruence. rewrite Co. cbn [length Nat.eqb negb].
        rewrite (IH (pre ++ [f]) (acc ++ [None]) all vs []); auto.
        -- apply acc_inv_snoc_none_opt; auto.
        -- apply none_sent_enc; auto. eapply canonical_length; eauto.
      * (* sent *)
        cbn [negb andb] in *.
        destruct (enc (fty f) v) as [bv|] eqn:Ev; [|discriminate].
        destruct (enc_fields fs all vs) as [br|] eqn:Er; [|discriminate].
        assert (b = bv ++ br) as -> by congruence.
        destruct (is_ticket (fty f)) eqn:Et.
        -- (* _PeerInitTicket: last field *)
           unfold wf_field in Wf. rewrite Et in Wf.
           apply andb_prop in Wf as [Wf _]. apply andb_prop in Wf as [Wf _].
           apply andb_prop in Wf as [Wl Wf]. apply andb_prop in Wf as [Wo _].
           apply negb_true_iff in Wo. rewrite Wo.
           destruct fs; [|discriminate]. destruct vs; [|contradiction].
           cbn in Er. assert (br = []) as -> by congruence. rewrite app_nil_r.
           destruct (fty f); try discriminate.
           rewrite (enc_dec_ticket v bv Cf Ev). reflexivity.
        -- assert (Hne : (1 <= length bv)%nat) by (eapply wf_field_nonempty; eauto).
           assert (Hck : (if fopt f then negb (Nat.eqb (length (bv ++ br)) 0) else true) = true).
           { destruct (fopt f); auto. rewrite app_length. destruct (Nat.eqb_spec (length bv + length br) 0); auto. lia. }
           rewrite Hck.
           assert (Wt : wf_ty (fty f) = true).
           { unfold wf_field in Wf. rewrite Et in Wf. apply andb_prop in Wf as [Wf _]. apply andb_prop in Wf as [Wf _].
             apply andb_prop in Wf as [Wf _]. auto. }
           rewrite (enc_dec_wf (fty f) Wt v bv br Cf Ev).
           rewrite (IH (pre ++ [f]) (acc ++ [Some v]) all vs br); auto.
           apply acc_inv_snoc_some; auto.
    + (* condition false: skipped on both sides *)
      rewrite andb_false_r in *.
      rewrite (IH (pre ++ [f]) (acc ++ [None]) all vs b); auto.
      apply acc_inv_snoc_none; auto. unfold cond_holds in Ech. destruct (fcond f); [discriminate|discriminate].
Qed.

Close Scope Z_scope.
Open Scope N_scope.

(* ==================================================================================== *)
Open Scope N_scope.

Lemma construct_expected : forall fs all vs, canonical_from fs all vs ->
  construct fs (expected fs all vs) = Some vs.
Proof.
  induction fs as [|f fs IH]; intros all vs C; destruct vs as [|v vs]; cbn in *; try contradiction; auto.
  destruct C as [Cf Cr]. rewrite (IH all vs Cr). unfold sent.
  destruct (cond_holds f all).
  - destruct (is_none v); cbn [negb andb].
    + destruct Cf as [_ [Cd _]]. unfold default_is in Cd. rewrite Cd. reflexivity.
    + reflexivity.
  - rewrite andb_false_r. unfold default_is in Cf. rewrite Cf. reflexivity.
Qed.

Lemma acc_inv_nil : forall all, acc_inv [] [] all.
Proof. intros. split; auto. intros i g H. destruct i; discriminate. Qed.

Lemma obj_roundtrip : forall fs m b, wf_fields [] fs = true -> canonical_from fs m m ->
  enc_fields fs m m = Some b -> dec_obj fs b = Some (m, []).
Proof.
  intros fs m b W C E. unfold dec_obj.
  rewrite (fields_roundtrip fs [] [] m m b); auto using acc_inv_nil.
  rewrite construct_expected by auto. reflexivity.
Qed.

Lemma enc_fields_total : forall fs all vs, canonical_from fs all vs -> exists b, enc_fields fs all vs = Some b.
Proof.
  induction fs as [|f fs IH]; intros all vs C; destruct vs as [|v vs]; cbn in *; try contradiction; eauto.
  destruct C as [Cf Cr]. destruct (IH all vs Cr) as [br Er]. rewrite Er. unfold sent.
  destruct (cond_holds f all); [|rewrite andb_false_r; eauto].
  destruct (is_none v); cbn [negb andb]; eauto.
  destruct (enc_total _ _ Cf) as [bv Ev]. rewrite Ev. eauto.
Qed.

Section Msg.
  Variable zc : bytes -> bytes.
  Variable zd : bytes -> option bytes.
  Hypothesis zd_zc : forall x, zd (zc x) = Some x.

  Lemma enc_msg_shape : forall s m b, enc_msg zc s m = Some b ->
    exists body body', enc_fields (sfields s) m m = Some body /\
      body' = (if compressed s then zc body else body) /\
      len (le (id_width s) (msg_id s)) + len body' < u32max /\
      b = le 4 (len (le (id_width s) (msg_id s)) + len body') ++ le (id_width s) (msg_id s) ++ body'.
  Proof using zc. clear zd zd_zc.
    intros s m b H. unfold enc_msg in H.
    destruct (enc_fields (sfields s) m m) as [body|]; [|discriminate].
    exists body. cbv zeta in H.
    match type of H with context [_ + len ?x <? u32max] => exists x end.
    split; auto. split; auto.
    match type of H with (if ?c then _ else _) = _ => destruct c eqn:E end; [|discriminate].
    apply N.ltb_lt in E. split; [auto|congruence].
  Qed.

  Lemma wf_schema_parts : forall s, wf_schema s = true ->
    wf_fields [] (sfields s) = true /\ msg_id s < pow256 (id_width s).
  Proof.
    intros s W. unfold wf_schema in W. apply andb_prop in W as [W1 W2].
    apply andb_prop in W1 as [W1 _]. apply andb_prop in W2 as [_ W2]. split; auto. lia.
  Qed.

  Theorem msg_roundtrip : forall s m b, wf_schema s = true -> canonical s m ->
    enc_msg zc s m = Some b -> dec_msg zd s b = Some m.
  Proof.
    intros s m b W C H. destruct (wf_schema_parts s W) as [Wf Wid].
    destruct (enc_msg_shape s m b H) as [body [body' [Eb [Hb' [Hl ->]]]]].
    unfold dec_msg. rewrite dec_uint_le by (rewrite pow256_4; auto).
    rewrite dec_uint_le by auto. rewrite N.eqb_refl.
    pose proof (obj_roundtrip (sfields s) m body Wf C Eb) as Ho.
    destruct (compressed s); subst body'.
    - rewrite zd_zc. rewrite Ho. reflexivity.
    - rewrite Ho. reflexivity.
  Qed.

  (* the length prefix is the number of bytes that follow; the id bytes are the class's id *)
  Theorem length_prefix : forall s m b, enc_msg zc s m = Some b ->
    (4 <= length b)%nat /\ leval (firstn 4 b) = len b - 4 /\
    firstn (id_width s) (skipn 4 b) = le (id_width s) (msg_id s).
  Proof using zc. clear zd zd_zc.
    intros s m b H. destruct (enc_msg_shape s m b H) as [body [body' [Eb [Hb' [Hl ->]]]]].
    rewrite firstn_app_exact, skipn_app_exact by apply le_length.
    rewrite firstn_app_exact by apply le_length.
    rewrite leval_le by (rewrite pow256_4; auto).
    rewrite !len_app. rewrite app_length, le_length.
    split; [lia|]. split; auto.
    assert (E4 : forall v, len (le 4 v) = 4) by (intros; unfold len; rewrite le_length; reflexivity).
    rewrite E4. lia.
  Qed.

  Theorem enc_msg_total : forall s m, wf_schema s = true -> canonical s m ->
    (exists b, enc_msg zc s m = Some b) \/
    (exists body, enc_fields (sfields s) m m = Some body /\
       u32max <= len (le (id_width s) (msg_id s)) + len (if compressed s then zc body else body)).
  Proof using zc. clear zd zd_zc.
    intros s m W C.
    destruct (enc_fields_total (sfields s) m m C) as [body Eb].
    unfold enc_msg. rewrite Eb. cbv zeta.
    match goal with |- context [if ?c then Some _ else None] => destruct c eqn:E end.
    - left. eauto.
    - right. exists body. split; auto. apply N.ltb_ge in E. exact E.
  Qed.

  (* dispatch *)
  Definition dispatchable (w : nat) (s : schema) : bool :=
    andb (Nat.leb w (id_width s)) (msg_id s <? pow256 w).

  Lemma le_prefix : forall w k v, firstn w (le (w + k) v) = le w v.
  Proof. induction w; intros; cbn [Nat.add le firstn]; auto. f_equal. apply IHw. Qed.

  Lemma find_unique : forall tbl s, nodup_ids tbl = true -> In s tbl ->
    find (fun s' => msg_id s' =? msg_id s) tbl = Some s.
  Proof.
    induction tbl as [|s0 r IH]; intros s N I; [contradiction|].
    cbn in N. apply andb_prop in N as [N1 N2]. apply negb_true_iff in N1. cbn [find].
    destruct (N.eqb_spec (msg_id s0) (msg_id s)) as [E|E].
    - destruct I as [->|I]; auto. exfalso.
      assert (existsb (fun s' => msg_id s' =? msg_id s0) r = true); [|congruence].
      apply existsb_exists. exists s. split; auto. apply N.eqb_eq. auto.
    - destruct I as [->|I]; [congruence|]. apply IH; auto.
  Qed.

  Theorem dispatch_roundtrip : forall tbl w s m b,
    In s tbl -> nodup_ids tbl = true -> dispatchable w s = true ->
    wf_schema s = true -> canonical s m -> enc_msg zc s m = Some b ->
    dispatch zd tbl w b = Some (s, m).
  Proof.
    intros tbl w s m b I N D W C H. unfold dispatch.
    pose proof (msg_roundtrip s m b W C H) as Hd.
    destruct (enc_msg_shape s m b H) as [body [body' [Eb [Hb' [Hl Hb]]]]].
    apply andb_prop in D as [D1 D2]. apply Nat.leb_le in D1.
    assert (Hid : dec_uint w (skipn 4 b) = Some (msg_id s, skipn w (skipn 4 b))).
    { rewrite Hb. rewrite skipn_app_exact by apply le_length.
      unfold dec_uint, take. rewrite app_length, le_length.
      destruct (Nat.leb_spec w (id_width s + length body')); [|lia].
      rewrite firstn_app. rewrite le_length.
      replace (w - id_width s)%nat with 0%nat by lia. cbn [firstn]. rewrite app_nil_r.
      assert (E : le (id_width s) (msg_id s) = le (w + (id_width s - w)) (msg_id s)) by (f_equal; lia).
      rewrite E at 1. rewrite le_prefix. cbv beta iota. rewrite leval_le by lia. reflexivity. }
    rewrite Hid. rewrite (find_unique tbl s N I). rewrite Hd. reflexivity.
  Qed.

  (* composition with the connection layer: obfuscated or not *)
  Theorem wire_roundtrip : forall obf key tbl w s m b,
    length key = 4%nat -> bytes_ok key ->
    In s tbl -> nodup_ids tbl = true -> dispatchable w s = true ->
    wf_schema s = true -> canonical s m -> enc_msg zc s m = Some b ->
    dispatch zd tbl w (wire_decode obf (wire_encode obf key b)) = Some (s, m).
  Proof.
    intros obf key tbl w s m b L B I N D W C H.
    destruct obf; cbn [wire_decode wire_encode].
    - rewrite obf_roundtrip by auto. eapply dispatch_roundtrip; eauto.
    - eapply dispatch_roundtrip; eauto.
  Qed.
End Msg.

Close Scope Z_scope.
Open Scope N_scope.

(* ==================================================================================== *)
(* facts about the GENERATED schema table (finite: vm_compute per dispatch table) *)
From SlskGen Require Import PrimGen SchemaGen.

Definition tables : list (family * direction) :=
  [(FServer, DRequest); (FServer, DResponse); (FPeerInit, DRequest); (FPeer, DRequest); (FDistributed, DRequest)].

Lemma schemas_wf : forallb wf_schema all_schemas = true.
Proof. vm_compute. reflexivity. Qed.

Lemma schema_wf_in : forall s, In s all_schemas -> wf_schema s = true.
Proof. pose proof schemas_wf as W. rewrite forallb_forall in W. exact W. Qed.

Ltac each_table H :=
  cbn [tables In] in H;
  repeat (destruct H as [H|H]; [injection H as <- <-|]); [..|contradiction].

Lemma ids_unique_at : forall f d, In (f, d) tables -> nodup_ids (table all_schemas f d) = true.
Proof. intros f d H. each_table H; vm_compute; reflexivity. Qed.

Lemma dispatchable_all_at : forall f d, In (f, d) tables ->
  forallb (dispatchable (gen_fam_width f)) (table all_schemas f d) = true.
Proof. intros f d H. each_table H; vm_compute; reflexivity. Qed.

Lemma dispatchable_at : forall f d s, In (f, d) tables -> In s (table all_schemas f d) ->
  dispatchable (gen_fam_width f) s = true.
Proof.
  intros f d s H I. pose proof (dispatchable_all_at f d H) as D. rewrite forallb_forall in D. auto.
Qed.

Lemma table_in_all : forall all f d s, In s (table all f d) -> In s all.
Proof. intros all f d s I. unfold table in I. apply filter_In in I. tauto. Qed.

Lemma dispatch_current : forall zc zd, (forall x, zd (zc x) = Some x) ->
  forall f d s m b, In (f, d) tables -> In s (table all_schemas f d) -> canonical s m ->
  enc_msg zc s m = Some b ->
  dispatch zd (table all_schemas f d) (gen_fam_width f) b = Some (s, m).
Proof.
  intros zc zd Hz f d s m b It Is C E.
  apply (dispatch_roundtrip zc zd Hz (table all_schemas f d) (gen_fam_width f) s m b Is).
  - apply ids_unique_at; exact It.
  - apply (dispatchable_at f d s It Is).
  - apply schema_wf_in. apply (table_in_all all_schemas f d s Is).
  - exact C.
  - exact E.
Qed.

Lemma wire_current : forall zc zd, (forall x, zd (zc x) = Some x) ->
  forall obf key f d s m b, length key = 4%nat -> bytes_ok key ->
  In (f, d) tables -> In s (table all_schemas f d) -> canonical s m ->
  enc_msg zc s m = Some b ->
  dispatch zd (table all_schemas f d) (gen_fam_width f) (wire_decode obf (wire_encode obf key b)) = Some (s, m).
Proof.
  intros zc zd Hz obf key f d s m b L B It Is C E.
  destruct obf; cbn [wire_decode wire_encode].
  - rewrite obf_roundtrip by auto. apply (dispatch_current zc zd Hz f d s m b It Is C E).
  - apply (dispatch_current zc zd Hz f d s m b It Is C E).
Qed.

(* ==================================================================================== *)
(* the boolean domain check used by the correspondence harness implies [canonical] *)
From Slsk Require Import C01.Eval.
Lemma bytes_eqb_eq : forall a b, bytes_eqb a b = true -> a = b.
Proof.
  induction a; intros b H; destruct b; cbn in H; try discriminate; auto.
  apply andb_prop in H as [H1 H2]. apply N.eqb_eq in H1. f_equal; auto.
Qed.

Fixpoint value_eqb_eq (a : value) : forall b, value_eqb a b = true -> a = b.
Proof.
  destruct a as [z|bb|s|s|o|vs|vs|]; intros c H; destruct c as [z0|bb0|s0|s0|o0|vs0|vs0|]; cbn [value_eqb] in H; try discriminate.
  - apply Z.eqb_eq in H. congruence.
  - apply Bool.eqb_prop in H. congruence.
  - apply bytes_eqb_eq in H. congruence.
  - apply bytes_eqb_eq in H. congruence.
  - apply bytes_eqb_eq in H. congruence.
  - f_equal. revert vs0 H. induction vs as [|p x IH]; intros y H; destruct y as [|q y]; try discriminate; auto.
    apply andb_prop in H as [H1 H2]. f_equal; [apply value_eqb_eq; exact H1|apply IH; exact H2].
  - f_equal. revert vs0 H. induction vs as [|p x IH]; intros y H; destruct y as [|q y]; try discriminate; auto.
    apply andb_prop in H as [H1 H2]. f_equal; [apply value_eqb_eq; exact H1|apply IH; exact H2].
  - reflexivity.
Qed.

Lemma canonical_fromb_sound : forall fs all vs, canonical_fromb fs all vs = true -> canonical_from fs all vs.
Proof.
  induction fs as [|f fs IH]; intros all vs H; destruct vs as [|v vs]; cbn in *; try discriminate; auto.
  apply andb_prop in H as [H1 H2]. split; [|apply IH; exact H2].
  assert (D : forall w, default_isb f w = true -> default_is f w).
  { intros w Hw. unfold default_isb, default_is in *. destruct (fdefault f) as [d|]; [|discriminate].
    apply value_eqb_eq in Hw. congruence. }
  destruct (cond_holds f all); [|apply D; exact H1].
  destruct (is_none v); [|exact H1].
  apply andb_prop in H1 as [Ha Hb]. apply andb_prop in Hb as [Hb Hc]. auto.
Qed.

Theorem canonicalb_sound : forall s m, canonicalb s m = true -> canonical s m.
Proof. intros. apply canonical_fromb_sound. assumption. Qed.
