(* C14 proofs *)
From Slsk Require Import Base.Tac.
From SlskGen Require Import DistGen.
From Slsk Require Import C13.Model C13.Proofs C14.Model.
Open Scope Z_scope.
Arguments memn : simpl never.

Lemma conn_of_app : forall c a b, conn_of c (a ++ b) = conn_of c a ++ conn_of c b.
Proof. intros. unfold conn_of. apply flat_map_app. Qed.

Lemma conn_of_fwd_list : forall s k u t q c l, NoDup l -> (forall x, In x l -> live x s = true) ->
  conn_of c (flat_map (fun x => if live x s then [OConn x (CSearch k u t q)] else []) l)
  = if memn c l then [CSearch k u t q] else [].
Proof.
  intros s k u t q c l N L. induction N as [|x l Hx N IH]; [reflexivity|].
  cbn [flat_map]. rewrite (L x (or_introl eq_refl)). rewrite conn_of_app. rewrite IH by (intros y Hy; apply L; right; exact Hy).
  unfold memn at 2. cbn [existsb]. fold (memn c l). cbn [conn_of flat_map app].
  destruct (Nat.eqb c x) eqn:E.
  - apply Nat.eqb_eq in E. subst x. apply memn_false in Hx. rewrite Hx. reflexivity.
  - reflexivity.
Qed.

Lemma srv_of_fwd : forall k u t q s, srv_of (fwd_children k u t q s) = [] /\ closed_of (fwd_children k u t q s) = [].
Proof.
  intros. unfold fwd_children. induction (children s) as [|x l [IH1 IH2]]; [split; reflexivity|].
  cbn [flat_map]. unfold srv_of, closed_of in *. rewrite !flat_map_app, IH1, IH2. destruct (live x s); split; reflexivity.
Qed.

Lemma fanout_exact : forall s e k u t q, tree_inv s -> forwarded s e = Some (k, u, t, q) ->
  (forall c, In c (children s) -> conn_of c (forward s e) = [CSearch k u t q]) /\
  (forall c, ~ In c (children s) -> conn_of c (forward s e) = []) /\
  (forall p, parent s = Some p -> conn_of p (forward s e) = []) /\
  (forall c, live c s = false -> conn_of c (forward s e) = []) /\
  srv_of (forward s e) = [] /\ closed_of (forward s e) = [].
Proof.
  intros s e k u t q (N & L & P) F. unfold forward. rewrite F. unfold fwd_children.
  assert (A : forall c, conn_of c (flat_map (fun x => if live x s then [OConn x (CSearch k u t q)] else []) (children s))
                   = if memn c (children s) then [CSearch k u t q] else []) by (intros c; apply conn_of_fwd_list; assumption).
  split; [|split; [|split; [|split]]].
  - intros c Hc. rewrite A. apply memn_In in Hc. rewrite Hc. reflexivity.
  - intros c Hc. rewrite A. apply memn_false in Hc. rewrite Hc. reflexivity.
  - intros p E. rewrite A. destruct (P p E) as [_ Np]. apply memn_false in Np. rewrite Np. reflexivity.
  - intros c Lc. rewrite A. destruct (memn c (children s)) eqn:M; [|reflexivity]. apply memn_In in M. apply L in M. congruence.
  - apply srv_of_fwd.
Qed.

Lemma not_forwarded : forall s e, forwarded s e = None -> forward s e = [].
Proof. intros s e F. unfold forward. rewrite F. reflexivity. Qed.

Section WithQuery.
  Variable query : name -> nat -> list nat * list nat.
  Variable blocked : name -> bool.

  Lemma tree_inv_run14 : forall evs s, tree_inv s -> tree_inv (run14 query blocked s evs).
  Proof.
    induction evs as [|e evs IH]; intros s H; simpl in *; [exact H|].
    apply IH. destruct e; cbn [step14 fst]; try (eapply tree_inv_eq; [|exact H]; unfold tree_eq; cbn; tauto).
    apply tree_inv_step; exact H.
  Qed.

  Lemma fanout_run : forall evs e k u t q,
    let s := run14 query blocked init evs in
    forwarded s e = Some (k, u, t, q) ->
    (forall c, In c (children s) -> conn_of c (forward s e) = [CSearch k u t q]) /\
    (forall c, ~ In c (children s) -> conn_of c (forward s e) = []) /\
    (forall p, parent s = Some p -> conn_of p (forward s e) = []) /\
    (forall c, live c s = false -> conn_of c (forward s e) = []) /\
    srv_of (forward s e) = [] /\ closed_of (forward s e) = [].
  Proof. intros evs e k u t q s F. apply fanout_exact; [|exact F]. apply tree_inv_run14. exact tree_inv_init. Qed.

  (* own searches: every carrier is filtered, for forwarding and for answering (generated flags) *)
  Lemma own_all : forall s k t q, session s = true ->
    (forward s (ServerSearch k me t q) = [] /\ answer query blocked s (ServerSearch k me t q) = []) /\
    (forall c, forward s (DistSearch c k me t q) = [] /\ answer query blocked s (DistSearch c k me t q) = []) /\
    (forall c code, forward s (LegacySearch c code k me t q) = [] /\ answer query blocked s (LegacySearch c code k me t q) = []).
  Proof.
    intros s k t q Hs. unfold forward, forwarded, answer, own. rewrite Hs. cbn.
    split; [split; reflexivity|]. split.
    - intros c. destruct (live c s); split; reflexivity.
    - intros c code. destruct (live c s && legacy_code_ok code); split; reflexivity.
  Qed.

  Definition expected_answer (u : name) (t : Z) (q : nat) : list reply :=
    let r := query u q in if is_nil (fst r) && is_nil (snd r) then [] else [mkReply u t me (fst r) (snd r)].

  Lemma answer_exact : forall s u t q k, session s = true -> Nat.eqb u me = false -> blocked u = false ->
    answer query blocked s (ServerSearch k u t q) = expected_answer u t q /\
    (forall c, live c s = true -> answer query blocked s (DistSearch c k u t q) = expected_answer u t q) /\
    (forall c code, live c s = true -> legacy_code_ok code = true -> answer query blocked s (LegacySearch c code k u t q) = expected_answer u t q) /\
    (forall c code, legacy_code_ok code = false ->
       answer query blocked s (LegacySearch c code k u t q) = [] /\ forward s (LegacySearch c code k u t q) = []).
  Proof.
    intros s u t q k Hs Hu Hb. unfold answer, own, reply_for, expected_answer, forward, forwarded. rewrite Hs, Hu, Hb. cbn [andb negb].
    rewrite ?andb_false_r. cbn [negb andb]. split; [reflexivity|]. split; [intros c L; rewrite L; reflexivity|].
    split; [intros c code L C; rewrite L, C; reflexivity|]. intros c code C. rewrite C, andb_false_r. split; reflexivity.
  Qed.

  (* a user blocked for searches gets no answer, whatever the carrier; forwarding does not look at the block list
     (see [others_forwarded]: it has no hypothesis about [blocked]) *)
  Lemma blocked_not_answered : forall s u t q k, blocked u = true ->
    answer query blocked s (ServerSearch k u t q) = [] /\
    (forall c, answer query blocked s (DistSearch c k u t q) = []) /\
    (forall c code, answer query blocked s (LegacySearch c code k u t q) = []).
  Proof.
    intros s u t q k Hb. unfold answer, reply_for. rewrite Hb. cbn [answer_blocked_gate andb negb]. rewrite andb_false_r.
    split; [|split].
    - destruct (session s); [destruct (_ && _)|]; reflexivity.
    - intros c. destruct (live c s); [destruct (_ && _)|]; reflexivity.
    - intros c code. destruct (live c s && legacy_code_ok code); [destruct (_ && _)|]; reflexivity.
  Qed.

  (* requests of other users are passed on by every carrier (the filter does not over-block) *)
  Lemma others_forwarded : forall s u t q k, Nat.eqb u me = false ->
    forwarded s (ServerSearch k u t q) = Some (k, u, t, q) /\
    (forall c, live c s = true -> forwarded s (DistSearch c k u t q) = Some (k, u, t, q)) /\
    (forall c code, live c s = true -> legacy_code_ok code = true ->
       forwarded s (LegacySearch c code k u t q) = Some (LEGACY_UNKNOWN, u, t, q)).
  Proof.
    intros s u t q k Hu. unfold forwarded, own. rewrite Hu, !andb_false_r. split; [reflexivity|].
    split; [intros c L; rewrite L; reflexivity | intros c code L C; rewrite L, C; reflexivity].
  Qed.
End WithQuery.

Definition noq : name -> nat -> list nat * list nat := fun _ _ => ([], []).
