(* C14 model: search requests flow down the tree; the local answer.

   On top of the C13 tree machine (C13/Model.v).  The three carrier messages do not change the
   tree state; they produce per-connection sends (forwarding: distributed.py) and search replies
   (answer: search/manager.py).  The shares query is a PARAMETER (Section variable): the
   correspondence check instantiates it with the table of results of the real
   SharesManager.query.  Whether a handler filters searches of the logged-in user, the legacy
   code test and the legacy `unknown` constant are GENERATED (SlskGen.DistGen). *)
From Coq Require Import ZArith List Bool Arith.
From SlskGen Require Import DistGen.
From Slsk Require Import C13.Model.
Import ListNotations.
Open Scope Z_scope.

Inductive ev14 :=
| Tree (e : event)
| ServerSearch (k : Z) (u : name) (t : Z) (q : nat)                   (* ServerSearchRequest from the server *)
| DistSearch (c : conn) (k : Z) (u : name) (t : Z) (q : nat)          (* DistributedSearchRequest on connection c *)
| LegacySearch (c : conn) (code k : Z) (u : name) (t : Z) (q : nat).  (* DistributedServerSearchRequest on c *)

Record reply := mkReply { r_to : name; r_ticket : Z; r_from : name; r_vis : list nat; r_locked : list nat }.

(* send_messages_to_children: queue_messages on every child connection; a closing / closed
   connection writes nothing *)
Definition fwd_children (k : Z) (u : name) (t : Z) (q : nat) (s : state) : list out :=
  flat_map (fun c => if live c s then [OConn c (CSearch k u t q)] else []) (children s).

Definition own (s : state) (u : name) : bool := session s && Nat.eqb u me.

(* the request that is passed on (None: nothing is forwarded) *)
Definition forwarded (s : state) (e : ev14) : option (Z * name * Z * nat) :=
  match e with
  | Tree _ => None
  | ServerSearch k u t q => if fwd_server_own_filtered && own s u then None else Some (k, u, t, q)
  | DistSearch c k u t q =>
      if live c s then (if fwd_dist_own_filtered && own s u then None else Some (k, u, t, q)) else None
  | LegacySearch c code k u t q =>
      if live c s && legacy_code_ok code then
        (if fwd_legacy_own_filtered && own s u then None else Some (LEGACY_UNKNOWN, u, t, q))
      else None
  end.

Definition forward (s : state) (e : ev14) : list out :=
  match forwarded s e with
  | Some (k, u, t, q) => fwd_children k u t q s
  | None => []
  end.

Section Answer.
  (* SharesManager.query q username=u: (visible, locked) item ids *)
  Variable query : name -> nat -> list nat * list nat.
  (* Settings.users.is_blocked(user, BlockingFlag.SEARCHES) *)
  Variable blocked : name -> bool.

  Definition is_nil {A} (l : list A) : bool := match l with [] => true | _ => false end.

  (* _query_shares_and_reply *)
  Definition reply_for (s : state) (u : name) (t : Z) (q : nat) : list reply :=
    if session s && negb (answer_blocked_gate && blocked u) then
      let r := query u q in
      if is_nil (fst r) && is_nil (snd r) then [] else [mkReply u t me (fst r) (snd r)]
    else [].

  Definition answer (s : state) (e : ev14) : list reply :=
    match e with
    | Tree _ => []
    | ServerSearch k u t q =>
        if session s then (if ans_server_own_filtered && Nat.eqb u me then [] else reply_for s u t q) else []
    | DistSearch c k u t q =>
        if live c s then (if ans_dist_own_filtered && own s u then [] else reply_for s u t q) else []
    | LegacySearch c code k u t q =>
        if live c s && legacy_code_ok code then (if ans_legacy_own_filtered && own s u then [] else reply_for s u t q) else []
    end.

  Definition step14 (s : state) (e : ev14) : state * list out * list reply :=
    match e with
    | Tree te => let s' := step s te in (s', outs s', [])
    | _ => (set_outs [] s, forward s e, answer s e)
    end.

  Fixpoint run14 (s : state) (evs : list ev14) : state :=
    match evs with [] => s | e :: r => run14 (fst (fst (step14 s e))) r end.

  (* ---- observation (correspondence) *)
  Record obs14 := mkObs14 { o_tree : obs; o_replies : list reply }.

  Definition reply_eqb (a b : reply) : bool :=
    Nat.eqb (r_to a) (r_to b) && Z.eqb (r_ticket a) (r_ticket b) && Nat.eqb (r_from a) (r_from b)
    && list_eqb Nat.eqb (r_vis a) (r_vis b) && list_eqb Nat.eqb (r_locked a) (r_locked b).

  Definition agree_step14 (K : nat) (s : state) (o : list out) (r : list reply) (x : obs14) : bool :=
    agree_step K (set_outs o s) (o_tree x) && list_eqb reply_eqb r (o_replies x).

  Fixpoint first_diff14 (K : nat) (s : state) (evs : list ev14) (os : list obs14) (i : nat) : nat :=
    match evs, os with
    | e :: evs', o :: os' =>
        let '(s', ou, rp) := step14 s e in
        if agree_step14 K s' ou rp o then first_diff14 K s' evs' os' (S i) else i
    | _, _ => i
    end.
End Answer.

