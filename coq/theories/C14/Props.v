(* C14 property theorems (statements only; proofs are in Proofs.v).
   Machine: the C13 tree machine (C13/Model.v) plus the three search carriers (C14/Model.v), the
   code after the repairs of F10 and F17.  [query] (SharesManager.query) is a parameter: every
   theorem holds for every query function.  The own-name filters, the legacy code test and
   constants are SlskGen.DistGen, regenerated from distributed.py and search/manager.py. *)
From Slsk Require Import Base.Tac.
From SlskGen Require Import DistGen.
From Slsk Require Import C13.Model C13.Proofs C14.Model C14.Proofs.
Open Scope Z_scope.

(* Fan-out, after EVERY history (tree events and searches, any Hold/Release schedule): a request
   that is passed on reaches every current child exactly once, unchanged (user, ticket, query),
   and nothing is written anywhere else: not to the parent, not to candidates or other
   non-children, not to closed connections, not to the server.  (Full statement: F10 repaired.) *)
Theorem C14_fanout_exact : forall query blocked evs e k u t q,
  let s := run14 query blocked init evs in
  forwarded s e = Some (k, u, t, q) ->
  (forall c, In c (children s) -> conn_of c (forward s e) = [CSearch k u t q]) /\
  (forall c, ~ In c (children s) -> conn_of c (forward s e) = []) /\
  (forall p, parent s = Some p -> conn_of p (forward s e) = []) /\
  (forall c, live c s = false -> conn_of c (forward s e) = []) /\
  srv_of (forward s e) = [] /\ closed_of (forward s e) = [].
Proof. exact fanout_run. Qed.

(* ... when the handler does not pass the request on, nothing is written at all ... *)
Theorem C14_not_forwarded_silent : forall s e, forwarded s e = None -> forward s e = [].
Proof. exact not_forwarded. Qed.

(* ... and requests of other users ARE passed on by every carrier (legacy: with the right code). *)
Theorem C14_others_forwarded : forall s u t q k, Nat.eqb u me = false ->
  forwarded s (ServerSearch k u t q) = Some (k, u, t, q) /\
  (forall c, live c s = true -> forwarded s (DistSearch c k u t q) = Some (k, u, t, q)) /\
  (forall c code, live c s = true -> legacy_code_ok code = true ->
     forwarded s (LegacySearch c code k u t q) = Some (LEGACY_UNKNOWN, u, t, q)).
Proof. exact others_forwarded. Qed.

(* Own searches are neither forwarded nor answered, whatever carrier brings them, from any state
   with a session.  (Full statement: F17 repaired.) *)
Theorem C14_own_not_forwarded_or_answered : forall query blocked s k t q, session s = true ->
  (forward s (ServerSearch k me t q) = [] /\ answer query blocked s (ServerSearch k me t q) = []) /\
  (forall c, forward s (DistSearch c k me t q) = [] /\ answer query blocked s (DistSearch c k me t q) = []) /\
  (forall c code, forward s (LegacySearch c code k me t q) = [] /\ answer query blocked s (LegacySearch c code k me t q) = []).
Proof. exact own_all. Qed.

(* Answer: for a search of another user, from any state with a session, every carrier produces
   exactly one reply (to the asker, same ticket, own name, the visible and locked lists of the
   query) iff one of the lists is non-empty; a legacy message with another code does nothing. *)
Theorem C14_answer_exact : forall query blocked s u t q k, session s = true -> Nat.eqb u me = false -> blocked u = false ->
  answer query blocked s (ServerSearch k u t q) = expected_answer query u t q /\
  (forall c, live c s = true -> answer query blocked s (DistSearch c k u t q) = expected_answer query u t q) /\
  (forall c code, live c s = true -> legacy_code_ok code = true ->
     answer query blocked s (LegacySearch c code k u t q) = expected_answer query u t q) /\
  (forall c code, legacy_code_ok code = false ->
     answer query blocked s (LegacySearch c code k u t q) = [] /\ forward s (LegacySearch c code k u t q) = []).
Proof. exact answer_exact. Qed.

(* A user blocked for searches (Settings.users.blocked, a parameter like the query) gets no answer
   through any carrier; the forwarding theorems above have no hypothesis about the block list: the
   request of a blocked user is passed on to the children like any other. *)
Theorem C14_blocked_not_answered : forall query blocked s u t q k, blocked u = true ->
  answer query blocked s (ServerSearch k u t q) = [] /\
  (forall c, answer query blocked s (DistSearch c k u t q) = []) /\
  (forall c code, answer query blocked s (LegacySearch c code k u t q) = []).
Proof. exact blocked_not_answered. Qed.

(* The source still sends to the children by independent queued sends (one write fault or one slow
   child does not affect the others: explored by the harness). *)
Theorem C14_children_sends_independent : children_send_independent = true.
Proof. reflexivity. Qed.

(* non-vacuity: a tree with parent 1 and children 2, 3; a search of user 4 coming from the parent
   is forwarded to both children and answered once when the query has results; the own search
   through the same carrier is dropped *)
Definition nvq : name -> nat -> list nat * list nat := fun u q => if Nat.eqb q 1 then ([7%nat; 8%nat], [9%nat]) else ([], []).
Definition nvb : name -> bool := fun u => Nat.eqb u 6.
Definition nv14 : list ev14 :=
  map Tree [SessionInit; PeerInit 1%nat 1%nat true; BranchLevel 1%nat 3; BranchRoot 1%nat 5%nat; PeerInit 2%nat 2%nat false; PeerInit 3%nat 3%nat false]
  ++ [DistSearch 1%nat 49 4%nat 11 0%nat].
Example C14_nonvacuous :
  let s := run14 nvq nvb init nv14 in
  forwarded s (DistSearch 1%nat 49 4%nat 12 1%nat) = Some (49, 4%nat, 12, 1%nat) /\
  children s = [2%nat; 3%nat] /\ parent s = Some 1%nat /\ session s = true /\
  forward s (DistSearch 1%nat 49 4%nat 12 1%nat) = [OConn 2%nat (CSearch 49 4%nat 12 1%nat); OConn 3%nat (CSearch 49 4%nat 12 1%nat)] /\
  answer nvq nvb s (DistSearch 1%nat 49 4%nat 12 1%nat) = [mkReply 4%nat 12 me [7%nat; 8%nat] [9%nat]] /\
  answer nvq nvb s (DistSearch 1%nat 49 4%nat 12 0%nat) = [] /\
  forward s (DistSearch 1%nat 49 me 12 1%nat) = [] /\ answer nvq nvb s (DistSearch 1%nat 49 me 12 1%nat) = [] /\
  answer nvq nvb s (DistSearch 1%nat 49 6%nat 12 1%nat) = [] /\ forward s (DistSearch 1%nat 49 6%nat 12 1%nat) <> [].
Proof. vm_compute. repeat split; try reflexivity. discriminate. Qed.
