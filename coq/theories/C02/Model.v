(* C02 model: framing and the reader loop (network/connection.py).
   - split_frame   = DataConnection._read_message on the bytes buffered so far
                     (readexactly(header); de-obfuscate the length; readexactly(length))
   - drain         = as many complete frames as the buffer holds (the reader loop reading on)
   - run_stream    = the StreamReader buffer fed chunk by chunk (any TCP segmentation)
   - reader machine with handler outcomes (Ok | Raises | Cancels) and EOF / read errors
   - the accept path (Network.on_peer_accepted) for the first frame of an incoming connection
   The decoder is C01's [dispatch] (total by construction).  Definitions only, executable. *)
From Coq Require Import ZArith List Bool.
From Slsk Require Import C01.Types C01.Model.
From SlskGen Require Import ConnGen.
Import ListNotations.
Open Scope N_scope.

(* header sizes and the position of the length field: GENERATED (SlskGen.ConnGen, from
   HEADER_SIZE_* and DataConnection._read_message) *)
Definition hdr_size (obf : bool) : nat := if obf then CONN_HDR_OBF else CONN_HDR_PLAIN.
Definition frame_len (decoded_header : bytes) : N :=
  leval (firstn CONN_LEN_WIDTH (skipn CONN_LEN_OFFSET decoded_header)).

(* one frame (header ++ message) off the front of the buffer, if it is complete *)
Definition split_frame (obf : bool) (buf : bytes) : option (bytes * bytes) :=
  if Nat.leb (hdr_size obf) (length buf) then
    let header := firstn (hdr_size obf) buf in
    let n := frame_len (wire_decode obf header) in
    let rest := skipn (hdr_size obf) buf in
    if n <=? len rest
    then Some (header ++ firstn (N.to_nat n) rest, skipn (N.to_nat n) rest)
    else None
  else None.

Fixpoint drain (obf : bool) (fuel : nat) (buf : bytes) : list bytes * bytes :=
  match fuel with
  | O => ([], buf)
  | S f =>
      match split_frame obf buf with
      | None => ([], buf)
      | Some (fr, rest) => let '(frs, b) := drain obf f rest in (fr :: frs, b)
      end
  end.

(* every frame takes at least the header off the buffer: fuel = length suffices *)
Definition drain_all (obf : bool) (buf : bytes) : list bytes * bytes := drain obf (length buf) buf.

(* feed the stream buffer chunk by chunk; frames in the order the reader obtains them *)
Fixpoint run_stream (obf : bool) (buf : bytes) (chunks : list bytes) : list bytes * bytes :=
  match chunks with
  | [] => ([], buf)
  | c :: cs =>
      let '(f1, b1) := drain_all obf (buf ++ c) in
      let '(f2, b2) := run_stream obf b1 cs in
      (f1 ++ f2, b2)
  end.

(* what the sender puts on the wire for one message body (any bytes; obfuscated with any key) *)
Definition plain (body : bytes) : bytes := le 4 (len body) ++ body.
Definition wframe (obf : bool) (key body : bytes) : bytes := wire_encode obf key (plain body).

Fixpoint filter_map {A B} (f : A -> option B) (l : list A) : list B :=
  match l with
  | [] => []
  | x :: r => match f x with Some y => y :: filter_map f r | None => filter_map f r end
  end.

(* decode_message_data: de-obfuscate the whole frame, then the connection's deserializer D *)
Definition deliveries {M} (obf : bool) (D : bytes -> option M) (frames : list bytes) : list M :=
  filter_map (fun fr => D (wire_decode obf fr)) frames.

(* ------------------------------------------------------------------------------------ *)
(* reader loop as a machine                                                              *)

Inductive hout := HOk | HRaises | HCancels.
Inductive ev := Chunk (c : bytes) | Eof | ReadError.

Record rstate (M : Type) : Type := mkR {
  rbuf : bytes;
  rclosed : bool;        (* connection reached CLOSED (disconnect ran) *)
  rrunning : bool;       (* the reader task is alive *)
  rdelivered : list M    (* messages handed to Network.on_message_received, in order *)
}.
Arguments mkR {M}. Arguments rbuf {M}. Arguments rclosed {M}. Arguments rrunning {M}. Arguments rdelivered {M}.

Section Reader.
  Context {M : Type}.
  Variable obf : bool.
  Variable D : bytes -> option M.
  (* outcome of the callback chain for a message, given what was delivered before *)
  Variable h : list M -> M -> hout.

  (* handle the complete frames in order; a callback raising CancelledError (a BaseException, not
     caught by `except Exception`) ends the reader task; the frames behind it stay unread *)
  Fixpoint handle (frames : list bytes) (delivered : list M) : list M * bool :=
    match frames with
    | [] => (delivered, true)
    | fr :: r =>
        match D (wire_decode obf fr) with
        | None =>                                          (* MessageDeserializationError: logged, loop continues *)
            if decode_wraps_every_exception then handle r delivered
            else (delivered, false)                        (* an unwrapped parser exception would end the reader task *)
        | Some m =>
            match h delivered m with
            | HCancels => (delivered ++ [m], false)
            | HRaises =>                                  (* an Exception of the callback is logged *)
                if callback_guarded_by_exception then handle r (delivered ++ [m]) else (delivered ++ [m], false)
            | HOk => handle r (delivered ++ [m])
            end
        end
    end.

  Definition rstep (s : rstate M) (e : ev) : rstate M :=
    if negb (rrunning s) then s else
    match e with
    | Chunk c =>
        let '(frames, rest) := drain_all obf (rbuf s ++ c) in
        let '(dl, alive) := handle frames (rdelivered s) in
        mkR rest (rclosed s) alive dl
    | Eof => mkR [] true false (rdelivered s)          (* IncompleteReadError: disconnect(EOF | READ_ERROR) *)
    | ReadError => mkR [] true false (rdelivered s)    (* any other read exception / timeout: disconnect *)
    end.

  (* The handler-outcome hypothesis of the liveness theorem, stated precisely: [h dl m] is the
     outcome of `await self.network.on_message_received(m, self)` inside the reader task after the
     messages [dl] were delivered on this connection.  HCancels = the await raises
     asyncio.CancelledError (or any other BaseException that is not an Exception) although the reader
     task itself was not cancelled from outside, e.g. a handler awaiting a task or future that is
     (or gets) cancelled.  HRaises = it raises an Exception (logged by _perform_message_callback /
     EventBus.emit).  HOk = it returns.  The hypothesis says: HCancels never happens. *)
  Definition handlers_never_cancel : Prop := forall dl m, h dl m <> HCancels.

  Definition rinit : rstate M := mkR [] false true [].
  Definition rrun (evs : list ev) : rstate M := fold_left rstep evs rinit.
End Reader.

(* ------------------------------------------------------------------------------------ *)
(* write side: DataConnection.send_message / queue_message / queue_messages              *)

Inductive send_path := PSendMessage | PQueueMessage | PQueueMessages.

(* every message becomes one frame, obfuscated on its own (fresh key), handed to the transport in ONE
   write before the sending coroutine can be suspended (so concurrent senders -- asyncio.gather of
   send_message, one task per queue_message -- cannot interleave inside a frame), in call order *)
Definition frames_on_wire (obf : bool) (kfs : list (bytes * bytes)) : bytes :=
  concat (map (fun kf => wire_encode obf (fst kf) (snd kf)) kfs).

(* all frames joined and obfuscated once with the first key: what a batching send would write *)
Definition joined_on_wire (obf : bool) (kfs : list (bytes * bytes)) : bytes :=
  match kfs with
  | [] => []
  | kf :: _ => wire_encode obf (fst kf) (concat (map snd kfs))
  end.

(* [kfs] = (key drawn by obfuscation.encode, serialised frame) per message, in call order.  The shape
   decisions come from SlskGen.ConnGen (translate/tr_conn.py). *)
Definition sent_wire (p : send_path) (obf : bool) (kfs : list (bytes * bytes)) : bytes :=
  let per_call := if andb (andb one_frame_per_send_message frame_written_in_one_piece) frame_obfuscated_on_its_own
                  then frames_on_wire obf kfs else joined_on_wire obf kfs in
  match p with
  | PSendMessage => per_call
  | PQueueMessage => if queue_message_is_send_message then per_call else []
  | PQueueMessages =>
      if andb queue_messages_in_order_one_each queue_message_is_send_message then per_call
      else joined_on_wire obf kfs
  end.

(* ------------------------------------------------------------------------------------ *)
(* accept path: the first frame of an incoming connection                                *)

Inductive first_outcome := FUndecodable | FNotInit | FPierceUnknown | FInit | FPierceKnown | FEofOrError.

(* registry of peer connections as (id, open?) ; the accepted connection is appended first *)
Definition accept (reg : list (nat * bool)) (id : nat) (o : first_outcome) : list (nat * bool) :=
  match o with
  | FInit | FPierceKnown => reg ++ [(id, true)]          (* stays registered, reader started *)
  | _ => reg                                            (* closed: removed again on CLOSED *)
  end.

Definition conn_open_after (o : first_outcome) : bool :=
  match o with FInit | FPierceKnown => true | _ => false end.
