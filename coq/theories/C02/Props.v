(* C02 property theorems (statements; proofs in Proofs.v).  The decoder is C01's (dec / dispatch
   over the schema table GENERATED from /repo); framing and the reader loop are the hand model of
   network/connection.py, tied by correspondence through the real _message_reader_loop. *)
From Slsk Require Import Base.Tac.
From Slsk Require Import C01.Types C01.Model C01.Proofs C02.Model C02.Proofs.
Open Scope N_scope.

(* Parsing terminates and is linear: a successful decode of any type consumes at least its minimum
   size; hence an array loop yields at most as many elements as bytes remain, whatever count the
   peer announced (up to 2^32-1), and giving the loop more iterations than bytes never changes the
   result (the model's bound is not what decides).  Totality itself is by construction: dec and
   dispatch are Coq functions whose failure cases are the listed None branches. *)
Theorem C02_decode_progress : forall t bs v r, dec t bs = Some (v, r) -> (length r + min_size t <= length bs)%nat.
Proof. exact dec_progress. Qed.

Theorem C02_total_and_linear : forall e, (1 <= min_size e)%nat ->
  (forall extra cnt bs, dec_arr (dec e) (length bs + extra) cnt bs = dec_arr (dec e) (length bs) cnt bs) /\
  (forall fuel cnt bs vs r, dec_arr (dec e) fuel cnt bs = Some (vs, r) -> (length vs + length r <= length bs)%nat).
Proof. exact total_and_linear. Qed.

(* A complete frame is recognised as such with any bytes behind it, plain or obfuscated (any key). *)
Theorem C02_split_frame : forall obf k b rest, length k = 4%nat -> bytes_ok k -> len b < u32max ->
  split_frame obf (wframe obf k b ++ rest) = Some (wframe obf k b, rest).
Proof. exact split_wframe. Qed.

(* Framing: for ANY frame bodies (decodable or not, hostile or not), any obfuscation keys and ANY
   segmentation of the byte stream into chunks, the reader obtains exactly the decodable bodies,
   once each and in order, and nothing is left in the buffer. *)
Theorem C02_framing : forall (M : Type) obf (D : bytes -> option M) kbs chunks,
  Forall frame_ok kbs ->
  concat chunks = concat (map (fun kb => wframe obf (fst kb) (snd kb)) kbs) ->
  let '(frames, rest) := run_stream obf [] chunks in
  deliveries obf D frames = filter_map (fun kb => D (plain (snd kb))) kbs /\ rest = [].
Proof. intros M. exact (@framing M). Qed.

(* The reader-loop machine delivers exactly that and stays alive and open, provided no handler
   raises CancelledError. *)
Theorem C02_reader_framing : forall (M : Type) obf (D : bytes -> option M) h,
  handlers_never_cancel h ->
  forall kbs chunks, Forall frame_ok kbs ->
  concat chunks = concat (map (fun kb => wframe obf (fst kb) (snd kb)) kbs) ->
  let s := rrun obf D h (map Chunk chunks) in
  rdelivered s = filter_map (fun kb => D (plain (snd kb))) kbs /\ rbuf s = [] /\ rrunning s = true /\ rclosed s = false.
Proof. intros M obf D h Hh. exact (reader_framing obf D h Hh). Qed.

(* No input stops the reader silently: whatever bytes arrive, in whatever segmentation, followed by
   EOF / read errors or not, if the reader task has ended then the connection is closed.  The one
   hypothesis is [handlers_never_cancel] (C02/Model.v): no message handler lets a CancelledError /
   BaseException escape into the reader task.  Python cannot rule that out by construction (both
   `except Exception` layers let it pass), so it is a property of the handlers: it is TESTED on every
   run by delivering every message class twice to a fully wired client (it failed for
   WishlistInterval before the F07 repair; the witness is replayed on every run). *)
Theorem C02_reader_liveness : forall (M : Type) obf (D : bytes -> option M) h,
  handlers_never_cancel h ->
  forall evs, rrunning (rrun obf D h evs) = false -> rclosed (rrun obf D h evs) = true.
Proof. intros M obf D h Hh. exact (liveness obf D h Hh). Qed.

(* non-vacuity / necessity of the hypothesis: an instance violating it violates the conclusion *)
Example C02_reader_liveness_hypothesis_needed :
  ~ handlers_never_cancel h_cancel_second /\
  (let s := rrun false id_of h_cancel_second [Chunk wish_frame; Chunk (wish_frame ++ wish_frame)] in
   rrunning s = false /\ rclosed s = false) /\
  handlers_never_cancel (fun (_ : list N) (_ : N) => HRaises).
Proof. split; [exact (proj1 hypothesis_needed)|]. split; [exact (proj2 hypothesis_needed)|]. intros dl m. discriminate. Qed.

(* Accept path: an undecodable / non-init / unknown-ticket first frame (or EOF / read error) closes
   that connection and leaves the registry of the other connections as it was. *)
Theorem C02_bad_first_frame : forall reg id o,
  o = FUndecodable \/ o = FNotInit \/ o = FPierceUnknown \/ o = FEofOrError ->
  accept reg id o = reg /\ conn_open_after o = false.
Proof. exact bad_first_frame. Qed.

Example C02_framing_nonvacuous :
  Forall frame_ok [([1; 2; 3; 4], [7; 0; 0; 0; 9]); ([0; 0; 0; 0], []); ([255; 255; 255; 255], [1])] /\
  (let '(frames, rest) := run_stream true [] [[1; 2; 3]; [4] ++ firstn 5 (skipn 4 (wframe true [1; 2; 3; 4] [7; 0; 0; 0; 9]));
                                              skipn 9 (wframe true [1; 2; 3; 4] [7; 0; 0; 0; 9]) ++ wframe true [0; 0; 0; 0] []] in
   length frames = 2%nat /\ rest = []) /\
  (1 <= min_size (TRec [TInt 1 false; TStr]))%nat.
Proof.
  split; [repeat constructor; vm_compute; auto|]. split; [vm_compute; auto|vm_compute; lia].
Qed.
