(* C02 property theorems (statements; proofs in Proofs.v).  The decoder is C01's (dec / dispatch
   over the schema table GENERATED from /repo); framing and the reader loop are the hand model of
   network/connection.py, tied by correspondence through the real _message_reader_loop. *)
From Slsk Require Import Base.Tac.
From Slsk Require Import C01.Types C01.Model C01.Proofs C02.Model C02.Proofs.
From SlskGen Require Import ConnGen PrimGen SchemaGen.
Open Scope N_scope.

(* Parsing terminates and is linear: a successful decode of any type consumes at least its minimum
   size; hence an array loop yields at most as many elements as bytes remain, whatever count the
   peer announced (up to 2^32-1), and giving the loop more iterations than bytes never changes the
   result (the model's bound is not what decides).  Totality itself is by construction: dec and
   dispatch are Coq functions whose failure cases are the listed None branches. *)
Theorem C02_decode_progress : forall t bs v r, dec t bs = Some (v, r) -> (length r + min_size t <= length bs)%nat.
Proof. exact dec_progress. Qed.

Theorem C02_total_and_linear : forall e, (1 <= min_size e)%nat ->
  (forall extra cnt bs, dec_arr (dec e) (length bs + extra) cnt bs = dec_arr (dec e) (length bs) cnt bs) /\
  (forall fuel cnt bs vs r, dec_arr (dec e) fuel cnt bs = Some (vs, r) -> (length vs + length r <= length bs)%nat).
Proof. exact total_and_linear. Qed.

(* A complete frame is recognised as such with any bytes behind it, plain or obfuscated (any key). *)
Theorem C02_split_frame : forall obf k b rest, length k = 4%nat -> bytes_ok k -> len b < u32max ->
  split_frame obf (wframe obf k b ++ rest) = Some (wframe obf k b, rest).
Proof. exact split_wframe. Qed.

(* Framing: for ANY frame bodies (decodable or not, hostile or not), any obfuscation keys and ANY
   segmentation of the byte stream into chunks, the reader obtains exactly the decodable bodies,
   once each and in order, and nothing is left in the buffer. *)
Theorem C02_framing : forall (M : Type) obf (D : bytes -> option M) kbs chunks,
  Forall frame_ok kbs ->
  concat chunks = concat (map (fun kb => wframe obf (fst kb) (snd kb)) kbs) ->
  let '(frames, rest) := run_stream obf [] chunks in
  deliveries obf D frames = filter_map (fun kb => D (plain (snd kb))) kbs /\ rest = [].
Proof. intros M. exact (@framing M). Qed.

(* The reader-loop machine delivers exactly that and stays alive and open, provided no handler
   raises CancelledError. *)
Theorem C02_reader_framing : forall (M : Type) obf (D : bytes -> option M) h,
  handlers_never_cancel h ->
  forall kbs chunks, Forall frame_ok kbs ->
  concat chunks = concat (map (fun kb => wframe obf (fst kb) (snd kb)) kbs) ->
  let s := rrun obf D h (map Chunk chunks) in
  rdelivered s = filter_map (fun kb => D (plain (snd kb))) kbs /\ rbuf s = [] /\ rrunning s = true /\ rclosed s = false.
Proof. intros M obf D h Hh. exact (reader_framing obf D h Hh). Qed.

(* No input stops the reader silently: whatever bytes arrive, in whatever segmentation, followed by
   EOF / read errors or not, if the reader task has ended then the connection is closed.  The one
   hypothesis is [handlers_never_cancel] (C02/Model.v): no message handler lets a CancelledError /
   BaseException escape into the reader task.  Python cannot rule that out by construction (both
   `except Exception` layers let it pass), so it is a property of the handlers: it is TESTED on every
   run by delivering every message class twice to a fully wired client (it failed for
   WishlistInterval before the F07 repair; the witness is replayed on every run). *)
Theorem C02_reader_liveness : forall (M : Type) obf (D : bytes -> option M) h,
  handlers_never_cancel h ->
  forall evs, rrunning (rrun obf D h evs) = false -> rclosed (rrun obf D h evs) = true.
Proof. intros M obf D h Hh. exact (liveness obf D h Hh). Qed.

(* non-vacuity / necessity of the hypothesis: an instance violating it violates the conclusion *)
Example C02_reader_liveness_hypothesis_needed :
  ~ handlers_never_cancel h_cancel_second /\
  (let s := rrun false id_of h_cancel_second [Chunk wish_frame; Chunk (wish_frame ++ wish_frame)] in
   rrunning s = false /\ rclosed s = false) /\
  handlers_never_cancel (fun (_ : list N) (_ : N) => HRaises).
Proof. split; [exact (proj1 hypothesis_needed)|]. split; [exact (proj2 hypothesis_needed)|]. intros dl m. discriminate. Qed.

(* The framing constants and shape decisions the model is built on are the ones GENERATED from
   network/connection.py on this run (header sizes, length field, exception clauses). *)
Theorem C02_conn_constants :
  (CONN_HDR_OBF, CONN_HDR_PLAIN, CONN_LEN_WIDTH, CONN_LEN_OFFSET) = (8, 4, 4, 0)%nat /\
  decode_wraps_every_exception = true /\ callback_guarded_by_exception = true.
Proof. exact conn_constants. Qed.

(* WRITE side composed with the peer's reader.  For every send path (send_message, queue_message,
   queue_messages), plain or obfuscated (any keys), every list of in-domain messages of a dispatch
   table: the bytes on the wire are the concatenation of the messages' frames in order (each frame
   obfuscated on its own), and under ANY segmentation the reader of the peer delivers exactly those
   messages, once each and in order, stays alive and open, with an empty buffer. *)
Theorem C02_sent_wire_is_frames : forall p obf kfs, sent_wire p obf kfs = frames_on_wire obf kfs.
Proof. exact sent_wire_frames. Qed.

Theorem C02_send_receive : forall zc zd, (forall x, zd (zc x) = Some x) ->
  forall p obf f d (h : list (schema * list value) -> schema * list value -> hout) items chunks,
  handlers_never_cancel h -> In (f, d) tables -> Forall (item_ok zc f d) items ->
  concat chunks = sent_wire p obf (map (fun it => (ikey it, iframe it)) items) ->
  let s := rrun obf (dispatch zd (table all_schemas f d) (gen_fam_width f)) h (map Chunk chunks) in
  rdelivered s = map (fun it => (ischema it, ivalue it)) items /\ rbuf s = [] /\ rrunning s = true /\ rclosed s = false.
Proof. exact send_receive. Qed.

Example C02_send_receive_nonvacuous :
  Forall (item_ok (fun x => x) FPeer DRequest)
    [mkItem [1; 2; 3; 4] s_PeerUploadFailed_Request [VStr [97]] [9; 0; 0; 0; 46; 0; 0; 0; 1; 0; 0; 0; 97];
     mkItem [9; 9; 9; 9] s_PeerUserInfoRequest_Request [] [4; 0; 0; 0; 15; 0; 0; 0]] /\
  sent_wire PQueueMessages true [([1; 2; 3; 4], [9; 0; 0; 0; 46; 0; 0; 0; 1; 0; 0; 0; 97]); ([9; 9; 9; 9], [4; 0; 0; 0; 15; 0; 0; 0])]
    <> joined_on_wire true [([1; 2; 3; 4], [9; 0; 0; 0; 46; 0; 0; 0; 1; 0; 0; 0; 97]); ([9; 9; 9; 9], [4; 0; 0; 0; 15; 0; 0; 0])].
Proof.
  split; [|vm_compute; discriminate].
  constructor; [|constructor; [|constructor]].
  - split; [reflexivity|]. split; [repeat constructor; unfold byte_ok; lia|].
    split; [vm_compute; repeat (first [left; reflexivity | right])|]. split; [vm_compute; tauto|vm_compute; reflexivity].
  - split; [reflexivity|]. split; [repeat constructor; unfold byte_ok; lia|].
    split; [vm_compute; repeat (first [left; reflexivity | right])|]. split; [vm_compute; tauto|vm_compute; reflexivity].
Qed.

(* Accept path: an undecodable / non-init / unknown-ticket first frame (or EOF / read error) closes
   that connection and leaves the registry of the other connections as it was. *)
Theorem C02_bad_first_frame : forall reg id o,
  o = FUndecodable \/ o = FNotInit \/ o = FPierceUnknown \/ o = FEofOrError ->
  accept reg id o = reg /\ conn_open_after o = false.
Proof. exact bad_first_frame. Qed.

Example C02_framing_nonvacuous :
  Forall frame_ok [([1; 2; 3; 4], [7; 0; 0; 0; 9]); ([0; 0; 0; 0], []); ([255; 255; 255; 255], [1])] /\
  (let '(frames, rest) := run_stream true [] [[1; 2; 3]; [4] ++ firstn 5 (skipn 4 (wframe true [1; 2; 3; 4] [7; 0; 0; 0; 9]));
                                              skipn 9 (wframe true [1; 2; 3; 4] [7; 0; 0; 0; 9]) ++ wframe true [0; 0; 0; 0] []] in
   length frames = 2%nat /\ rest = []) /\
  (1 <= min_size (TRec [TInt 1 false; TStr]))%nat.
Proof.
  split; [repeat constructor; vm_compute; auto|]. split; [vm_compute; auto|vm_compute; lia].
Qed.
