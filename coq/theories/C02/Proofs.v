(* C02 proofs: framing (split_frame on well-formed frames, monotonicity, chunking invariance),
   reader machine (liveness under the no-cancel hypothesis, its refutation without it, delivery =
   framing), accept path, decoder progress and adequacy of the array-loop bound. *)
From Coq Require Import Nnat Znat.
From Slsk Require Import Base.Tac.
From Slsk Require Import C01.Types C01.Model C01.Proofs C02.Model.
From SlskGen Require Import ConnGen.
Open Scope N_scope.

(* ==================================================================================== *)
(* ---------- the GENERATED framing constants have the values the proofs below are about ---------- *)
Lemma conn_constants : (CONN_HDR_OBF, CONN_HDR_PLAIN, CONN_LEN_WIDTH, CONN_LEN_OFFSET) = (8, 4, 4, 0)%nat /\
  decode_wraps_every_exception = true /\ callback_guarded_by_exception = true.
Proof. repeat split. Qed.

Lemma frame_len_4 : forall h, length h = 4%nat -> frame_len h = leval h.
Proof.
  intros h L. unfold frame_len. change CONN_LEN_WIDTH with 4%nat. change CONN_LEN_OFFSET with 0%nat.
  cbn [skipn]. rewrite <- L. rewrite firstn_all. reflexivity.
Qed.

(* ---------- split_frame ---------- *)
Lemma plain_length : forall b, length (plain b) = (4 + length b)%nat.
Proof. intros. unfold plain. rewrite app_length, le_length. reflexivity. Qed.

Lemma obf_enc_loop_length : forall data key idx, length (obf_enc_loop key idx data) = length data.
Proof. induction data; intros; cbn [obf_enc_loop length]; auto. Qed.

Lemma wframe_length : forall obf k b, length k = 4%nat ->
  length (wframe obf k b) = (hdr_size obf + length b)%nat.
Proof.
  intros obf k b L. unfold wframe, wire_encode. destruct obf; cbn [hdr_size]; change CONN_HDR_OBF with 8%nat; change CONN_HDR_PLAIN with 4%nat.
  - unfold obf_encode. rewrite app_length.
    rewrite obf_enc_loop_length, plain_length. lia.
  - rewrite plain_length. lia.
Qed.

Lemma split_wframe : forall obf k b rest, length k = 4%nat -> bytes_ok k -> len b < u32max ->
  split_frame obf (wframe obf k b ++ rest) = Some (wframe obf k b, rest).
Proof.
  intros obf k b rest L B Hb. unfold split_frame.
  rewrite app_length, wframe_length by auto.
  destruct (Nat.leb_spec (hdr_size obf) (hdr_size obf + length b + length rest)); [|lia].
  destruct obf; cbn [hdr_size wframe wire_encode wire_decode] in *; change CONN_HDR_OBF with 8%nat in *; change CONN_HDR_PLAIN with 4%nat in *.
  - (* obfuscated: 8-byte header = key ++ obfuscated length *)
    assert (K : key_ok k) by (split; auto).
    unfold obf_encode. rewrite obf_enc_loop_xs0 by auto.
    unfold plain. rewrite xs_app.
    set (h := xs (kint k) 0 (le 4 (len b))). set (t := xs (kint k) (0 + len (le 4 (len b))) b).
    assert (Lh : length h = 4%nat) by (unfold h; rewrite xs_length; apply le_length).
    assert (Lt : length t = length b) by (unfold t; apply xs_length).
    replace ((k ++ h ++ t) ++ rest) with ((k ++ h) ++ (t ++ rest)) by (rewrite <- !app_assoc; reflexivity).
    rewrite firstn_app_exact, skipn_app_exact by (rewrite app_length; lia).
    rewrite obf_decode_xs by auto. unfold h. rewrite xs_involutive.
    rewrite frame_len_4 by apply le_length. rewrite leval_le by (rewrite pow256_4; auto).
    rewrite len_app. destruct (N.leb_spec (len b) (len t + len rest)); [|unfold len in *; lia].
    rewrite Nto_nat_len. rewrite <- Lt. rewrite firstn_app_exact, skipn_app_exact by reflexivity.
    rewrite <- !app_assoc. reflexivity.
  - unfold plain.
    replace ((le 4 (len b) ++ b) ++ rest) with (le 4 (len b) ++ (b ++ rest)) by (rewrite <- app_assoc; reflexivity).
    rewrite firstn_app_exact, skipn_app_exact by apply le_length.
    rewrite frame_len_4 by apply le_length. rewrite leval_le by (rewrite pow256_4; auto).
    rewrite len_app. destruct (N.leb_spec (len b) (len b + len rest)); [|lia].
    rewrite Nto_nat_len. rewrite firstn_app_exact, skipn_app_exact by reflexivity. reflexivity.
Qed.

Lemma wire_decode_wframe : forall obf k b, length k = 4%nat -> bytes_ok k ->
  wire_decode obf (wframe obf k b) = plain b.
Proof.
  intros obf k b L B. unfold wframe. destruct obf; cbn [wire_decode wire_encode]; auto.
  apply obf_roundtrip; auto.
Qed.

(* a complete frame stays the same frame when more bytes arrive behind it *)
Lemma split_frame_mono : forall obf buf fr rest c,
  split_frame obf buf = Some (fr, rest) -> split_frame obf (buf ++ c) = Some (fr, rest ++ c).
Proof.
  intros obf buf fr rest c H. unfold split_frame in *.
  destruct (Nat.leb_spec (hdr_size obf) (length buf)) as [Hl|]; [|discriminate].
  rewrite app_length. destruct (Nat.leb_spec (hdr_size obf) (length buf + length c)); [|lia].
  rewrite firstn_app. replace (hdr_size obf - length buf)%nat with 0%nat by lia. cbn [firstn]. rewrite app_nil_r.
  rewrite skipn_app. replace (hdr_size obf - length buf)%nat with 0%nat by lia. cbn [skipn].
  set (n := frame_len (wire_decode obf (firstn (hdr_size obf) buf))) in *.
  set (r := skipn (hdr_size obf) buf) in *.
  destruct (N.leb_spec n (len r)) as [Hn|]; [|discriminate].
  rewrite len_app. destruct (N.leb_spec n (len r + len c)); [|lia].
  assert (Hnn : (N.to_nat n <= length r)%nat) by (unfold len in Hn; lia).
  rewrite firstn_app. replace (N.to_nat n - length r)%nat with 0%nat by lia. cbn [firstn]. rewrite app_nil_r.
  rewrite skipn_app. replace (N.to_nat n - length r)%nat with 0%nat by lia. cbn [skipn].
  inv H. reflexivity.
Qed.

Lemma split_frame_shrinks : forall obf buf fr rest,
  split_frame obf buf = Some (fr, rest) -> (length rest + hdr_size obf <= length buf)%nat /\ buf = fr ++ rest.
Proof.
  intros obf buf fr rest H. unfold split_frame in H.
  destruct (Nat.leb_spec (hdr_size obf) (length buf)) as [Hl|]; [|discriminate].
  match type of H with context [if ?c then _ else _] => destruct c eqn:E end; [|discriminate]. inv H.
  rewrite skipn_length, skipn_length. split; [lia|].
  rewrite <- app_assoc. rewrite firstn_skipn. rewrite firstn_skipn. reflexivity.
Qed.

Lemma hdr_pos : forall obf, (4 <= hdr_size obf)%nat.
Proof. destruct obf; cbn [hdr_size]; change CONN_HDR_OBF with 8%nat; change CONN_HDR_PLAIN with 4%nat; lia. Qed.

(* ---------- drain ---------- *)
Lemma drain_fuel : forall obf fuel buf, (length buf <= fuel)%nat ->
  drain obf fuel buf = drain obf (length buf) buf.
Proof.
  intros obf fuel. induction fuel as [fuel IH] using lt_wf_ind. intros buf Hf.
  destruct fuel as [|f].
  - assert (length buf = 0)%nat by lia. rewrite H. reflexivity.
  - cbn [drain]. destruct (split_frame obf buf) as [[fr rest]|] eqn:E.
    + destruct (split_frame_shrinks _ _ _ _ E) as [Hs _]. pose proof (hdr_pos obf).
      destruct (length buf) as [|lb] eqn:El; [lia|]. cbn [drain]. rewrite E.
      rewrite (IH f) by lia. rewrite (IH lb) by lia. reflexivity.
    + destruct (length buf) as [|lb] eqn:El; cbn [drain]; [reflexivity|]. rewrite E. reflexivity.
Qed.

Lemma drain_all_step : forall obf buf,
  drain_all obf buf =
  match split_frame obf buf with
  | None => ([], buf)
  | Some (fr, rest) => let '(frs, b) := drain_all obf rest in (fr :: frs, b)
  end.
Proof.
  intros obf buf. unfold drain_all. destruct (split_frame obf buf) as [[fr rest]|] eqn:E.
  - destruct (split_frame_shrinks _ _ _ _ E) as [Hs _]. pose proof (hdr_pos obf).
    destruct (length buf) as [|lb] eqn:El; [lia|]. cbn [drain]. rewrite E.
    rewrite (drain_fuel obf lb rest) by lia. reflexivity.
  - destruct (length buf); cbn [drain]; [reflexivity|]. rewrite E. reflexivity.
Qed.

(* draining a buffer extended by a chunk = draining the buffer, then the remainder plus the chunk *)
Lemma drain_all_app : forall obf x y,
  drain_all obf (x ++ y) =
  let '(f1, r1) := drain_all obf x in
  let '(f2, r2) := drain_all obf (r1 ++ y) in (f1 ++ f2, r2).
Proof.
  intros obf x. remember (length x) as n eqn:Hn. revert x Hn.
  induction n as [n IH] using lt_wf_ind. intros x Hn y.
  rewrite (drain_all_step obf x).
  destruct (split_frame obf x) as [[fr rest]|] eqn:E.
  - rewrite (drain_all_step obf (x ++ y)). rewrite (split_frame_mono _ _ _ _ y E).
    destruct (split_frame_shrinks _ _ _ _ E) as [Hs _]. pose proof (hdr_pos obf).
    rewrite (IH (length rest)) by (subst; lia || reflexivity).
    destruct (drain_all obf rest) as [f1 r1]. destruct (drain_all obf (r1 ++ y)) as [f2 r2]. reflexivity.
  - destruct (drain_all obf (x ++ y)) as [f2 r2]. reflexivity.
Qed.

Lemma drain_all_rest : forall obf x f r, drain_all obf x = (f, r) -> split_frame obf r = None.
Proof.
  intros obf x. remember (length x) as n eqn:Hn. revert x Hn.
  induction n as [n IH] using lt_wf_ind. intros x Hn f r H.
  rewrite (drain_all_step obf x) in H.
  destruct (split_frame obf x) as [[fr rest]|] eqn:E.
  - destruct (split_frame_shrinks _ _ _ _ E) as [Hs _]. pose proof (hdr_pos obf).
    destruct (drain_all obf rest) as [f1 r1] eqn:E1. inv H.
    apply (IH (length rest) ltac:(lia) rest eq_refl f1 r E1).
  - inv H. exact E.
Qed.

(* any chunking = the whole stream at once *)
Lemma run_stream_concat : forall obf chunks buf, split_frame obf buf = None ->
  run_stream obf buf chunks = drain_all obf (buf ++ concat chunks).
Proof.
  intros obf chunks. induction chunks as [|c cs IH]; intros buf Hb; cbn [run_stream concat].
  - rewrite app_nil_r. rewrite drain_all_step, Hb. reflexivity.
  - rewrite app_assoc. rewrite (drain_all_app obf (buf ++ c) (concat cs)).
    destruct (drain_all obf (buf ++ c)) as [f1 b1] eqn:E1.
    rewrite (IH b1 (drain_all_rest _ _ _ _ E1)). reflexivity.
Qed.

Lemma split_frame_nil : forall obf, split_frame obf [] = None.
Proof. destruct obf; reflexivity. Qed.

(* the frames of a concatenation of well-formed frames are exactly those frames *)
Definition frame_ok (kb : bytes * bytes) : Prop :=
  length (fst kb) = 4%nat /\ bytes_ok (fst kb) /\ len (snd kb) < u32max.

Lemma drain_frames : forall obf kbs, Forall frame_ok kbs ->
  drain_all obf (concat (map (fun kb => wframe obf (fst kb) (snd kb)) kbs)) =
  (map (fun kb => wframe obf (fst kb) (snd kb)) kbs, []).
Proof.
  intros obf kbs H. induction H as [|[k b] kbs [L [B Hb]] Hr IH]; cbn [map concat fst snd] in *.
  - rewrite drain_all_step, split_frame_nil. reflexivity.
  - rewrite drain_all_step. rewrite split_wframe by auto. rewrite IH. reflexivity.
Qed.

Theorem framing : forall {M} obf (D : bytes -> option M) kbs chunks,
  Forall frame_ok kbs ->
  concat chunks = concat (map (fun kb => wframe obf (fst kb) (snd kb)) kbs) ->
  let '(frames, rest) := run_stream obf [] chunks in
  deliveries obf D frames = filter_map (fun kb => D (plain (snd kb))) kbs /\ rest = [].
Proof.
  intros M obf D kbs chunks H Hc.
  rewrite run_stream_concat by apply split_frame_nil. cbn [app]. rewrite Hc.
  rewrite drain_frames by auto. split; auto.
  unfold deliveries. clear Hc chunks.
  induction H as [|[k b] kbs [L [B Hb]] Hr IH]; cbn [map filter_map fst snd] in *; auto.
  rewrite wire_decode_wframe by auto. rewrite IH. reflexivity.
Qed.

(* ==================================================================================== *)
Section ReaderFacts.
  Context {M : Type}.
  Variable obf : bool.
  Variable D : bytes -> option M.
  Variable h : list M -> M -> hout.

  Lemma filter_map_app : forall {A B} (f : A -> option B) a b, filter_map f (a ++ b) = filter_map f a ++ filter_map f b.
  Proof. induction a; intros; cbn; auto. destruct (f a); cbn; rewrite IHa; auto. Qed.

  Hypothesis no_cancel : forall dl m, h dl m <> HCancels.

  Lemma handle_no_cancel : forall frames dl,
    handle obf D h frames dl = (dl ++ deliveries obf D frames, true).
  Proof.
    induction frames as [|fr r IH]; intros dl; cbn [handle deliveries filter_map].
    - rewrite app_nil_r. reflexivity.
    - destruct (D (wire_decode obf fr)) as [m|].
      + pose proof (no_cancel dl m). destruct (h dl m); try contradiction;
        rewrite IH; unfold deliveries; rewrite <- app_assoc; reflexivity.
      + apply IH.
  Qed.

  Definition rinv (s : rstate M) : Prop := rrunning s = false -> rclosed s = true.

  Lemma rstep_inv : forall s e, rinv s -> rinv (rstep obf D h s e).
  Proof.
    intros s e I. unfold rstep. destruct (rrunning s) eqn:R; cbn [negb]; auto.
    destruct e.
    - destruct (drain_all obf (rbuf s ++ c)) as [frames rest].
      rewrite handle_no_cancel. unfold rinv. cbn. discriminate.
    - unfold rinv. cbn. auto.
    - unfold rinv. cbn. auto.
  Qed.

  Lemma fold_inv : forall evs s, rinv s -> rinv (fold_left (rstep obf D h) evs s).
  Proof. induction evs; intros; cbn; auto. apply IHevs. apply rstep_inv; auto. Qed.

  Theorem liveness : forall evs,
    rrunning (rrun obf D h evs) = false -> rclosed (rrun obf D h evs) = true.
  Proof. intros evs. apply (fold_inv evs rinit). unfold rinv, rinit. cbn. discriminate. Qed.

  (* with handlers that never cancel the reader machine delivers what the stream contains *)
  Lemma rrun_chunks : forall chunks s, rrunning s = true ->
    let s' := fold_left (rstep obf D h) (map Chunk chunks) s in
    let '(frames, rest) := run_stream obf (rbuf s) chunks in
    rdelivered s' = rdelivered s ++ deliveries obf D frames /\ rbuf s' = rest /\ rrunning s' = true /\ rclosed s' = rclosed s.
  Proof.
    induction chunks as [|c cs IH]; intros s R; cbn [map fold_left run_stream].
    - unfold deliveries. cbn. rewrite app_nil_r. auto.
    - destruct (drain_all obf (rbuf s ++ c)) as [f1 b1] eqn:E1.
      assert (Es : rstep obf D h s (Chunk c) = mkR b1 (rclosed s) true (rdelivered s ++ deliveries obf D f1)).
      { unfold rstep. rewrite R. cbn [negb]. rewrite E1. rewrite handle_no_cancel. reflexivity. }
      rewrite Es.
      specialize (IH (mkR b1 (rclosed s) true (rdelivered s ++ deliveries obf D f1)) eq_refl). cbn [rbuf rdelivered rclosed] in IH.
      destruct (run_stream obf b1 cs) as [f2 b2].
      destruct IH as [I1 [I2 [I3 I4]]]. split; [|split; [exact I2|split; [exact I3|exact I4]]].
      rewrite I1. unfold deliveries. rewrite filter_map_app, app_assoc. reflexivity.
  Qed.

  Theorem reader_framing : forall kbs chunks,
    Forall frame_ok kbs ->
    concat chunks = concat (map (fun kb => wframe obf (fst kb) (snd kb)) kbs) ->
    let s := rrun obf D h (map Chunk chunks) in
    rdelivered s = filter_map (fun kb => D (plain (snd kb))) kbs /\ rbuf s = [] /\ rrunning s = true /\ rclosed s = false.
  Proof.
    intros kbs chunks H Hc. pose proof (rrun_chunks chunks rinit eq_refl) as R. cbn [rinit rbuf rdelivered rclosed] in R.
    pose proof (framing obf D kbs chunks H Hc) as F.
    destruct (run_stream obf [] chunks) as [frames rest]. destruct F as [F1 F2].
    destruct R as [R1 [R2 [R3 R4]]]. unfold rrun. cbv zeta. rewrite R1, R2, R3, R4, F1, F2. auto.
  Qed.
End ReaderFacts.

(* The hypothesis is necessary: a machine instance whose handler raises CancelledError on the second
   message with id 104 (the behaviour of SearchManager._on_wish_list_interval before the F07 repair)
   ends the reader while the connection stays open. *)
Definition id_of (bs : bytes) : option N := Some (nth 4 bs 0).
Definition h_cancel_second (dl : list N) (m : N) : hout :=
  if andb (m =? 104) (existsb (fun x => x =? 104) dl) then HCancels else HOk.
Definition wish_frame : bytes := [8; 0; 0; 0; 104; 0; 0; 0; 208; 2; 0; 0].

Lemma hypothesis_needed :
  ~ handlers_never_cancel h_cancel_second /\
  (let s := rrun false id_of h_cancel_second [Chunk wish_frame; Chunk (wish_frame ++ wish_frame)] in
   rrunning s = false /\ rclosed s = false).
Proof.
  split; [|vm_compute; auto].
  intros H. apply (H [104] 104). reflexivity.
Qed.

Theorem bad_first_frame : forall reg id o,
  o = FUndecodable \/ o = FNotInit \/ o = FPierceUnknown \/ o = FEofOrError ->
  accept reg id o = reg /\ conn_open_after o = false.
Proof. intros reg id o [->|[->|[->| ->]]]; split; reflexivity. Qed.

Theorem good_first_frame : forall reg id o, o = FInit \/ o = FPierceKnown ->
  accept reg id o = reg ++ [(id, true)] /\ conn_open_after o = true.
Proof. intros reg id o [->| ->]; split; reflexivity. Qed.

(* ==================================================================================== *)
Lemma take_length : forall w bs h r, take w bs = Some (h, r) -> (length r + w = length bs)%nat.
Proof.
  intros w bs h r H. unfold take in H. destruct (Nat.leb_spec w (length bs)); [|discriminate].
  inv H. rewrite skipn_length. lia.
Qed.

Lemma dec_uint_length : forall w bs n r, dec_uint w bs = Some (n, r) -> (length r + w = length bs)%nat.
Proof.
  intros w bs n r H. unfold dec_uint in H. destruct (take w bs) as [[h r']|] eqn:E; [|discriminate].
  inv H. eapply take_length; eauto.
Qed.

Lemma dec_int_length : forall w s bs z r, dec_int w s bs = Some (z, r) -> (length r + w = length bs)%nat.
Proof.
  intros w s bs z r H. unfold dec_int in H. destruct (dec_uint w bs) as [[n r']|] eqn:E; [|discriminate].
  inv H. eapply dec_uint_length; eauto.
Qed.

Lemma dec_arr_progress : forall (d : bytes -> option (value * bytes)) k,
  (forall x v r, d x = Some (v, r) -> (length r + k <= length x)%nat) ->
  forall fuel cnt bs vs r, dec_arr d fuel cnt bs = Some (vs, r) -> (length r + k * length vs <= length bs)%nat.
Proof.
  intros d k Hd. induction fuel as [|f IH]; intros cnt bs vs r H; cbn [dec_arr] in H.
  - destruct (cnt =? 0); [|discriminate]. inv H. cbn. lia.
  - destruct (cnt =? 0); [inv H; cbn; lia|].
    destruct (d bs) as [[v r1]|] eqn:E; [|discriminate].
    destruct (dec_arr d f (cnt - 1) r1) as [[vs' r']|] eqn:E2; [|discriminate]. inv H.
    specialize (Hd _ _ _ E). specialize (IH _ _ _ _ E2). cbn [length]. lia.
Qed.

(* every successful decode consumes at least min_size bytes *)
Lemma dec_progress : forall t bs v r, dec t bs = Some (v, r) -> (length r + min_size t <= length bs)%nat.
Proof.
  induction t as [w s| | | | | |e IHe|fs IHfs] using ty_ind2; intros bs v r H; cbn [dec min_size] in *.
  - destruct (dec_int w s bs) as [[z r']|] eqn:E; [|discriminate]. inv H. apply dec_int_length in E. lia.
  - destruct (dec_uint 1 bs) as [[n r']|] eqn:E; [|discriminate]. inv H. apply dec_uint_length in E. lia.
  - destruct (dec_uint 4 bs) as [[n r']|] eqn:E; [|discriminate]. apply dec_uint_length in E.
    destruct (n <=? len r'); [|discriminate]. destruct (decode_string _); [|discriminate]. inv H.
    rewrite skipn_length. lia.
  - destruct (dec_uint 4 bs) as [[n r']|] eqn:E; [|discriminate]. apply dec_uint_length in E.
    destruct (n <=? len r'); inv H; [rewrite skipn_length|cbn]; lia.
  - destruct (take 4 bs) as [[h r']|] eqn:E; [|discriminate]. inv H. apply take_length in E. lia.
  - destruct (Nat.eqb (length bs) 4).
    + destruct (dec_int 4 false bs) as [[z r']|] eqn:E; [|discriminate]. inv H. apply dec_int_length in E. lia.
    + destruct (dec_int 8 false bs) as [[z r']|] eqn:E; [|discriminate]. inv H. apply dec_int_length in E. lia.
  - destruct (dec_uint 4 bs) as [[n r']|] eqn:E; [|discriminate]. apply dec_uint_length in E.
    destruct (dec_arr (dec e) (length r') n r') as [[vs r'']|] eqn:E2; [|discriminate]. inv H.
    pose proof (dec_arr_progress (dec e) 0 (fun x v r H => ltac:(specialize (IHe _ _ _ H); lia)) _ _ _ _ _ E2). lia.
  - fold rec_dec in H. fold rec_min.
    destruct (rec_dec fs bs) as [[vs r']|] eqn:E; [|discriminate]. inv H.
    revert bs vs r E. induction IHfs as [|f fs Hf Hfs IH]; intros bs vs r E; cbn in *.
    + inv E. lia.
    + destruct (dec f bs) as [[v1 r1]|] eqn:E1; [|discriminate].
      destruct (rec_dec fs r1) as [[vs' r']|] eqn:E2; [|discriminate]. inv E.
      specialize (Hf _ _ _ E1). specialize (IH _ _ _ E2). lia.
Qed.

(* the loop bound of the model (fuel = bytes remaining) is never what decides the result *)
Lemma dec_arr_fuel : forall (d : bytes -> option (value * bytes)),
  (forall x v r, d x = Some (v, r) -> (length r < length x)%nat) ->
  forall f1 f2 cnt bs, (length bs <= f1)%nat -> (length bs <= f2)%nat ->
  dec_arr d f1 cnt bs = dec_arr d f2 cnt bs.
Proof.
  intros d Hd. induction f1 as [|f1 IH]; intros f2 cnt bs H1 H2.
  - destruct f2 as [|f2]; [reflexivity|]. cbn [dec_arr]. destruct (cnt =? 0); [reflexivity|].
    destruct (d bs) as [[v r]|] eqn:E; [|reflexivity]. specialize (Hd _ _ _ E). lia.
  - destruct f2 as [|f2]; cbn [dec_arr]; destruct (cnt =? 0); try reflexivity.
    + destruct (d bs) as [[v r]|] eqn:E; [|reflexivity]. specialize (Hd _ _ _ E). lia.
    + destruct (d bs) as [[v r]|] eqn:E; [|reflexivity]. specialize (Hd _ _ _ E).
      rewrite (IH f2 (cnt - 1) r) by lia. reflexivity.
Qed.

Theorem total_and_linear : forall e, (1 <= min_size e)%nat ->
  (* (a) any amount of extra iterations allowed to the array loop gives the same result *)
  (forall extra cnt bs, dec_arr (dec e) (length bs + extra) cnt bs = dec_arr (dec e) (length bs) cnt bs) /\
  (* (b) the loop never yields more elements than there are bytes, whatever count was announced *)
  (forall fuel cnt bs vs r, dec_arr (dec e) fuel cnt bs = Some (vs, r) -> (length vs + length r <= length bs)%nat).
Proof.
  intros e He. split.
  - intros. apply dec_arr_fuel; [|lia|lia]. intros x v r H. apply dec_progress in H. lia.
  - intros fuel cnt bs vs r H.
    pose proof (dec_arr_progress (dec e) 1 (fun x v r H => ltac:(apply dec_progress in H; lia)) _ _ _ _ _ H). lia.
Qed.


(* ==================================================================================== *)
(* write side composed with the peer's reader *)
From SlskGen Require Import PrimGen SchemaGen.

Lemma enc_msg_plain : forall zc s m fr, enc_msg zc s m = Some fr ->
  exists body, fr = plain body /\ len body < u32max.
Proof.
  intros zc s m fr H. destruct (enc_msg_shape zc s m fr H) as [body [body' [_ [_ [Hl ->]]]]].
  exists (le (id_width s) (msg_id s) ++ body'). unfold plain. rewrite len_app. split; [reflexivity|exact Hl].
Qed.

Lemma sent_wire_frames : forall p obf kfs, sent_wire p obf kfs = frames_on_wire obf kfs.
Proof. intros [] obf kfs; reflexivity. Qed.

(* one message handed to a send path: key, class, value, serialised frame *)
Record sent_item := mkItem { ikey : bytes; ischema : schema; ivalue : list value; iframe : bytes }.

Definition item_ok (zc : bytes -> bytes) (f : family) (d : direction) (it : sent_item) : Prop :=
  length (ikey it) = 4%nat /\ bytes_ok (ikey it) /\ In (ischema it) (table all_schemas f d) /\
  canonical (ischema it) (ivalue it) /\ enc_msg zc (ischema it) (ivalue it) = Some (iframe it).

Theorem send_receive : forall zc zd, (forall x, zd (zc x) = Some x) ->
  forall p obf f d (h : list (schema * list value) -> schema * list value -> hout) items chunks,
  handlers_never_cancel h -> In (f, d) tables -> Forall (item_ok zc f d) items ->
  concat chunks = sent_wire p obf (map (fun it => (ikey it, iframe it)) items) ->
  let s := rrun obf (dispatch zd (table all_schemas f d) (gen_fam_width f)) h (map Chunk chunks) in
  rdelivered s = map (fun it => (ischema it, ivalue it)) items /\ rbuf s = [] /\ rrunning s = true /\ rclosed s = false.
Proof.
  intros zc zd Hz p obf f d h items chunks Hh It Hok Hc.
  rewrite sent_wire_frames in Hc.
  assert (exists kbs, Forall frame_ok kbs /\
            frames_on_wire obf (map (fun it => (ikey it, iframe it)) items) =
              concat (map (fun kb => wframe obf (fst kb) (snd kb)) kbs) /\
            filter_map (fun kb => dispatch zd (table all_schemas f d) (gen_fam_width f) (plain (snd kb))) kbs =
              map (fun it => (ischema it, ivalue it)) items) as [kbs [F [E G]]].
  { clear Hc. induction Hok as [|it items [L [B [Is [C En]]]] Hr [kbs [F [E G]]]].
    - exists []. split; [constructor|]. split; reflexivity.
    - destruct (enc_msg_plain zc _ _ _ En) as [body [Ef Hl]].
      exists ((ikey it, body) :: kbs). split; [constructor; [split; [exact L|split; [exact B|exact Hl]]|exact F]|].
      split.
      + unfold frames_on_wire in *. cbn [map concat fst snd]. rewrite E. unfold wframe. rewrite Ef. reflexivity.
      + cbn [filter_map map fst snd]. rewrite <- Ef.
        rewrite (dispatch_current zc zd Hz f d _ _ _ It Is C En). rewrite G. reflexivity. }
  rewrite E in Hc.
  pose proof (reader_framing obf (dispatch zd (table all_schemas f d) (gen_fam_width f)) h Hh kbs chunks F Hc) as R.
  cbv zeta in R. rewrite G in R. exact R.
Qed.
