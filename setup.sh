#!/bin/sh
# Build the framework offline from files on disk: regenerate coq/gen from /repo, full .vo build.
set -e
cd "$(dirname "$0")"
exec /venv/bin/python tools/setup.py
